"""Shared part of the C02/C03/C04 checks (engine E-QBFT): run harness/qbft against the real
core/qbft.Run, render the observed executions as coq/gen/cases_qbft_<k>.v, evaluate trace inclusion in
coq/Qbft/Model.v and the global C02/C03/C04 monitors (coq/Qbft/Corr.v) with vm_compute, compare the
quorum and leader tables.  Returns a dict the three check scripts read."""
import hashlib
import json
import os
import re
from concurrent.futures import ThreadPoolExecutor

import vp

OVERLAY = os.path.join(vp.VERIF, "harness", "overlay", "core_consensus_qbft", "zz_verif_leader_test.go")

HEADER = """From Coq Require Import List NArith Arith Bool.
From Charon Require Import Common.Quorum Qbft.Model Qbft.Monitor Qbft.Net Qbft.Corr.
Import ListNotations.
Local Open Scope nat_scope.
"""


def case_term(h):
    return "(mkcase %d %d %d %d [%s] %s [%s] [\n  %s])" % (
        h["id"], h["nodes"], h["fifo"], h["off"], "; ".join(str(x) for x in (h.get("expect") or [])),
        "true" if h["kind"].startswith("cluster") else "false",
        "; ".join(str(x) for x in (h.get("byz") or [])), ";\n  ".join(h["trace"]))


def cases_v(hs):
    return HEADER + "Definition cases : list case := [\n" + ";\n".join(case_term(h) for h in hs) + "\n].\n" + """
Definition rejects := Eval vm_compute in all_rejects cases.
Definition c02_hits := Eval vm_compute in all_c02 cases.
Definition c03_hits := Eval vm_compute in all_c03 cases.
Definition c04u_hits := Eval vm_compute in all_c04u cases.
Definition c04d_hits := Eval vm_compute in all_c04d cases.
Definition m3_hits := Eval vm_compute in all_mon3 cases.
Definition net_hits := Eval vm_compute in all_net cases.
Definition deliv_hits := Eval vm_compute in all_deliv cases.
Print rejects.
Print c02_hits.
Print c03_hits.
Print c04u_hits.
Print c04d_hits.
Print m3_hits.
Print net_hits.
Print deliv_hits.
"""


def nums(term):
    """'[(1, (2, 3)); (4, (5, 6))]' -> [[1,2,3],[4,5,6]];  '[1; 2]' -> [[1],[2]]"""
    term = (term or "").strip()
    if not term or term.startswith("[]") or term == "nil":
        return []
    body = term[term.index("[") + 1: term.rindex("]")]
    return [[int(x) for x in re.findall(r"\d+", part)] for part in body.split(";") if re.search(r"\d", part)]


def input_fingerprint():
    """Everything the observed executions depend on (for the per-seed cache shared by C02/C03/C04)."""
    hsh = hashlib.sha256()
    files = [os.path.join(vp.HARNESS, "qbft", "qbft_test.go"), os.path.join(vp.HARNESS, "hx", "hx.go"), OVERLAY,
             os.path.join(vp.COQ, "Qbft", "Model.v"), os.path.join(vp.COQ, "Qbft", "Corr.v"),
             os.path.join(vp.COQ, "Common", "Quorum.v"), os.path.abspath(__file__),
             os.path.join(vp.REPO, "go.mod")]
    for d in ("core/qbft", "core/consensus/qbft", "core/consensus/instance", "app/errors", "app/log"):
        dd = os.path.join(vp.REPO, d)
        for fn in sorted(os.listdir(dd)) if os.path.isdir(dd) else []:
            if fn.endswith(".go"):
                files.append(os.path.join(dd, fn))
    for f in files:
        hsh.update(f.encode())
        try:
            hsh.update(open(f, "rb").read())
        except OSError:
            hsh.update(b"<missing>")
    return hsh.hexdigest()[:20]


def run_batch(R, n_hist, seed, tables, enum=False):
    """One harness invocation + evaluation.  Returns dict: ok(bool: pipeline ran), hs(list of histories), byid, rejects, c02, c03, c04u, c04d, qf_bad,
    leader_bad, broke(list of (name, detail))."""
    res = {"broke": [], "hs": [], "byid": {}, "rejects": [], "c02": [], "c03": [], "c04u": [], "c04d": [], "m3": [], "net": [], "deliv": [],
           "qf_bad": [], "leader_bad": [], "leader_rows": 0, "cached": False}
    replay = os.environ.get("VERIF_REPLAY")
    if replay:
        # only replay files of this engine (a list of injected events) are for harness/qbft
        try:
            j = json.load(open(replay))
            j = j.get("replay", j)
            mine = isinstance(j, dict) and isinstance(j.get("events"), list)
        except (OSError, ValueError):
            mine = False
        if not mine:
            res["skipped"] = "replay file is not a qbft event list"
            return res
    cache_key = None
    # result cache shared by the three checks: off unless asked for (a check always re-runs harness and model by default)
    if not replay and os.environ.get("VERIF_QBFT_CACHE") == "1" and vp.REPO == "/repo":
        cache_key = "%s-%d-%d" % (input_fingerprint(), seed, n_hist)
        cp = os.path.join(vp.WORK, "qbft_cache_%s.json" % cache_key)
        if os.path.exists(cp):
            try:
                res = json.load(open(cp))
                res["byid"] = {h["id"]: h for h in res["hs"]}
                res["cached"] = True
                return res
            except (OSError, ValueError):
                pass

    env = {"VERIF_N": n_hist, "VERIF_SEED": seed}
    if enum:
        env["VERIF_ENUM"] = 1
    if replay:
        env["VERIF_REPLAY"] = replay
    rc, out, od = vp.go_harness("qbft", env_extra=env, outdir=os.path.join(vp.WORK, "qbft_%s" % ("replay" if replay else R.pid)))
    if rc != 0:
        res["broke"].append(("correspondence:harness qbft failed to run", out[-3000:]))
        return res
    hs = json.load(open(os.path.join(od, "qbft_traces.json")))
    res["hs"] = hs
    res["byid"] = {h["id"]: h for h in hs}
    for h in hs:
        if h.get("unmodelled"):
            res["broke"].append(("correspondence:qbft.Run returned an error the model has no label for (history %d): %s" % (h["id"], h["unmodelled"]),
                                 json.dumps({"events": h["events"], "nodes": h["nodes"], "fifo": h["fifo"], "off": h["off"]})))

    # quorum and leader tables
    extra = ""
    if not replay and tables:
        qf = json.load(open(os.path.join(od, "qbft_qf.json")))
        extra += "Definition qf_bad := Eval vm_compute in qf_mismatch %d [%s].\nPrint qf_bad.\n" % (
            len(qf), "; ".join("(%d, %d)" % (a, b) for a, b in qf))
        rc2, out2, od2 = vp.go_overlay_test("core/consensus/qbft", {"zz_verif_leader_test.go": OVERLAY}, run="TestVerifLeader",
                                            outdir=os.path.join(vp.WORK, "ov_qbft_leader_%s" % R.pid))
        if rc2 != 0:
            res["broke"].append(("correspondence:wrapper leader/quorum overlay test failed to run", out2[-3000:]))
        else:
            lt = json.load(open(os.path.join(od2, "qbft_leader.json")))
            rows = lt["leader"]
            res["leader_rows"] = len(rows)
            grouped = {}
            for off, n, rnd, l in rows:
                grouped.setdefault((off, n), {})[rnd] = l
            terms = []
            for (off, n), d in sorted(grouped.items()):
                rmax = max(d)
                assert sorted(d) == list(range(1, rmax + 1))
                terms.append("(%d, %d, [%s])" % (off, n, "; ".join(str(d[r]) for r in range(1, rmax + 1))))
            extra += "Definition leader_bad := Eval vm_compute in leader_mismatch [%s].\nPrint leader_bad.\n" % "; ".join(terms)
            wq = lt["wrapper_qf"]
            extra += "Definition wqf_bad := Eval vm_compute in qf_mismatch %d [%s].\nPrint wqf_bad.\n" % (
                len(wq), "; ".join("(%d, %d)" % (a, b) for a, b in wq))
            res["wrapper_fifo"] = lt.get("fifo")

    # the documented negative result (compare verdict not a function of (member, value)) replayed on the real code
    if not replay and tables:
        rc3, out3, od3 = vp.go_harness("qbft", run="TestRefute", env_extra=env, outdir=os.path.join(vp.WORK, "qbft_refute_%s" % R.pid))
        if rc3 != 0:
            res["broke"].append(("correspondence:harness qbft TestRefute failed to run", out3[-3000:]))
        else:
            hr = json.load(open(os.path.join(od3, "qbft_refute.json")))[0]
            res["refute_history"] = {"events": hr["events"], "nodes": hr["nodes"], "fifo": hr["fifo"], "off": hr["off"], "byz": hr.get("byz")}
            extra += ("Definition refute_case := %s.\n"
                      "Definition refute_rejects := Eval vm_compute in rejects refute_case.\nPrint refute_rejects.\n"
                      "Definition refute_net := Eval vm_compute in net_bad refute_case.\nPrint refute_net.\n"
                      "Definition refute_decides := Eval vm_compute in map (fun d => fst (fst (snd d))) (all_decides (c_trace refute_case)).\nPrint refute_decides.\n"
                      % case_term(dict(hr, kind="cluster-byz")))

    shards = list(vp.chunks(hs, 25))
    jobs = [("qbft_%s_%d" % (R.pid, i), cases_v(shard)) for i, shard in enumerate(shards)]
    if extra:
        jobs.append(("qbft_%s_tab" % R.pid, HEADER + extra))

    def ev(job):
        return vp.coq_eval(job[0], job[1])

    with ThreadPoolExecutor(max_workers=max(2, vp.NPROC - 2)) as ex:
        outs = list(ex.map(ev, jobs))
    for (name, _), (rc, out) in zip(jobs, outs):
        if rc != 0:
            res["broke"].append(("correspondence:gen/cases_%s.v does not compile" % name, out[-3000:]))
            continue
        if name.endswith("_tab"):
            res["qf_bad"] = [x[0] for x in nums(vp.parse_marked(out, "qf_bad"))] + \
                            [1000 + x[0] for x in nums(vp.parse_marked(out, "wqf_bad"))]
            res["leader_bad"] = nums(vp.parse_marked(out, "leader_bad"))
            if "refute_history" in res:
                rr = nums(vp.parse_marked(out, "refute_rejects")) + nums(vp.parse_marked(out, "refute_net"))
                vals = re.findall(r"\d+", vp.parse_marked(out, "refute_decides") or "")
                res["refute"] = {"model_rejects": rr, "decided_values": vals}
            continue
        res["rejects"] += nums(vp.parse_marked(out, "rejects"))
        res["c02"] += [x[0] for x in nums(vp.parse_marked(out, "c02_hits"))]
        res["c03"] += nums(vp.parse_marked(out, "c03_hits"))
        res["c04u"] += nums(vp.parse_marked(out, "c04u_hits"))
        res["c04d"] += nums(vp.parse_marked(out, "c04d_hits"))
        res["m3"] += nums(vp.parse_marked(out, "m3_hits"))
        res["net"] += nums(vp.parse_marked(out, "net_hits"))
        res["deliv"] += nums(vp.parse_marked(out, "deliv_hits"))
    if cache_key and not res["broke"]:
        try:
            dump = dict(res)
            dump.pop("byid", None)
            with open(os.path.join(vp.WORK, "qbft_cache_%s.json" % cache_key), "w") as f:
                json.dump(dump, f)
        except OSError:
            pass
    return res


BATCH = 1000


def run(R, n_hist):
    """Runs the harness in batches of at most BATCH histories (bounded memory), batch k > 0 with seed
    seed*1000+k; history ids are made global (batch*BATCH + local id).  Full traces are kept only for
    histories some check points at."""
    total = {"broke": [], "hs": [], "byid": {}, "rejects": [], "c02": [], "c03": [], "c04u": [], "c04d": [], "m3": [], "net": [], "deliv": [],
             "qf_bad": [], "leader_bad": [], "leader_rows": 0}
    k, left = 0, n_hist
    enum_pending = R.thorough and not os.environ.get("VERIF_REPLAY")
    while left > 0 or enum_pending:
        enum = left <= 0
        if enum:
            enum_pending = False
        nb = min(BATCH, left) if not enum else BATCH
        res = run_batch(R, nb, R.seed if k == 0 else R.seed * 1000 + k, k == 0, enum=enum)
        off = k * BATCH
        total["broke"] += res["broke"]
        for key in ("rejects", "c03", "c04u", "c04d", "m3", "net", "deliv"):
            total[key] += [[x[0] + off] + list(x[1:]) for x in res[key]]
        total["c02"] += [x + off for x in res["c02"]]
        if k == 0:
            for key in ("qf_bad", "leader_bad", "leader_rows"):
                total[key] = res.get(key, total[key])
            for key in ("refute", "refute_history"):
                if key in res:
                    total[key] = res[key]
            if res.get("skipped"):
                total["skipped"] = res["skipped"]
        pointed = {x[0] for key in ("rejects", "c03", "c04u", "c04d", "m3", "net", "deliv") for x in res[key]} | set(res["c02"])
        for h in res["hs"]:
            h["nlabels"] = len(h["trace"])
            h["digest"] = vp.digest(h["events"])
            lid = h["id"]
            h["id"] = lid + off
            h["seed"] = R.seed if k == 0 else R.seed * 1000 + k
            if n_hist > BATCH and lid not in pointed and not (h["kind"] == "cluster-timely" and h["nodes"] >= 4 and k == 0):
                h["trace_head"] = h["trace"][:12]
                h["trace"], h["events"] = None, None
            total["hs"].append(h)
        k += 1
        left -= nb
        if res.get("skipped") or (res["broke"] and not res["hs"]):
            break
    total["byid"] = {h["id"]: h for h in total["hs"]}
    return total


def own_label_index(h, pid, k):
    """global trace index of the k-th label of process pid"""
    c = -1
    for gi, t in enumerate(h["trace"]):
        if t.startswith("(%d," % pid):
            c += 1
            if c == k:
                return gi
    return None


def replay_obj(h, upto=None):
    evs = h["events"] if upto is None else h["events"][:upto + 1]
    return {"seed": h.get("seed"), "nodes": h["nodes"], "fifo": h["fifo"], "off": h["off"], "expect": h.get("expect") or [],
            "cmpmix": h.get("cmpmix", False), "byz": h.get("byz") or [], "events": evs, "kind": h.get("kind"),
            "how": "./check <C02|C03|C04> --replay <this file> re-executes these events against /repo's qbft.Run"}


def coverage(R, res):
    hs = res["hs"]
    seen = set()
    kinds, stats = {}, {}
    nlabels = 0
    for h in hs:
        kinds[h["kind"]] = kinds.get(h["kind"], 0) + 1
        nlabels += h.get("nlabels", 0)
        for k, v in (h.get("stats") or {}).items():
            stats[k] = stats.get(k, 0) + v
        if any(k.startswith("rule:") and v > 0 for k, v in (h.get("stats") or {}).items()):
            seen.add(h.get("digest"))
    R.coverage["evaluations"] = len(hs)
    R.coverage["distinct_nontrivial"] = len(seen)
    R.coverage["rule"] = ("executions of the real core/qbft.Run inside testing/synctest, one injected event at a time "
                          "(kinds: cluster-random = n real processes under a random scheduler with drops/duplicates/reordering/late or missing inputs/arbitrary timeouts; "
                          "cluster-cmpmix = same with scripted Compare failures and timeouts; cluster-byz = n-f real processes against f members played by a scripted Byzantine adversary (equivocating proposals, votes for several values, forged/borrowed prepared claims, replays, cross-assembled justifications, DECIDED with mixed commits); cluster-timely = at most f crashed (also mid-broadcast) or never-started processes, "
                          "all messages delivered before timers; adv-0..7 = one real process fed by a justified-message generator: happy path + post-decision ROUND-CHANGE floods, "
                          "re-proposal of a prepared value, PRE-PREPAREs with every defect, DECIDED variants, round-change driven sequences, the repo's own commit-race tables, "
                          "FIFO overflow, random small-domain soup with echo of own messages); non-trivial = at least one upon-rule fired; distinct by hash of the injected event list")
    R.coverage["input_distribution"] = {"kinds": kinds, "labels_total": nlabels, "observed": dict(sorted(stats.items())),
                                        "quorum_table_n": 200, "wrapper_leader_rows": res.get("leader_rows", 0)}
    R.coverage["traces_validated_against_impl"] = len(hs)
    ex = next((h for h in hs if h["kind"] == "cluster-timely" and h["nodes"] >= 4 and h.get("trace")), None)
    if ex:
        R.add_samples([{"kind": ex["kind"], "nodes": ex["nodes"], "first_labels": ex["trace"][:12]}], 1)


def report_common(R, res, which):
    """Correspondence failures and table mismatches are common to the three checks."""
    for name, detail in res["broke"]:
        R.broke(name, detail)
    hit = {"C02": set(res["c02"]), "C03": {x[0] for x in res["c03"]} | {x[0] for x in res["m3"]},
           "C04": {x[0] for x in res["c04u"]} | {x[0] for x in res["c04d"]}}[which]
    for cid, pid, k in res["rejects"]:
        if cid in hit:
            continue
        h = res["byid"][cid]
        gi = own_label_index(h, pid, k)
        lab = h["trace"][gi] if gi is not None else "?"
        R.broke("correspondence:Qbft model rejects observed label %d of process %d in history %d (%s)" % (k, pid, cid, h["kind"]),
                json.dumps({"label": lab[:1500], "replay": replay_obj(h, gi)})[:6000])
    rej_ids = {x[0] for x in res["rejects"]}
    for cid, gi in res.get("net", []):
        if cid in rej_ids or cid in hit or os.environ.get("VERIF_REPLAY"):
            continue
        h = res["byid"][cid]
        R.broke("correspondence:Qbft/Net.v refuses global step %d of honest cluster history %d (%s): a delivered part was never broadcast" % (gi, cid, h["kind"]),
                json.dumps({"step": (h["trace"][gi] if h.get("trace") else "?")[:1500], "replay": replay_obj(h, gi)})[:6000])
    rf = res.get("refute")
    if rf is not None:
        if rf["model_rejects"]:
            R.broke("correspondence:the recorded compare-arbitrary attack (TestRefute) is no longer accepted by the model / Net.v at %s" % rf["model_rejects"],
                    json.dumps(res.get("refute_history"))[:6000])
        R.coverage["negative_result_compare_arbitrary"] = (
            "replayed on the real qbft.Run: honest members decided %s (differ: %s) -- documented, not a violation: needs Compare verdicts that are not a function of (member, value)"
            % (rf["decided_values"], len(set(rf["decided_values"])) > 1))
    if res["qf_bad"]:
        R.violation("quorum-table", "Quorum()/Faulty() differ from ceil(2n/3)/floor((n-1)/3) at n in %s (ids >= 1000: wrapper definition)" % res["qf_bad"][:10],
                    {"n": res["qf_bad"], "how": "qbft.Definition{Nodes:n}.Quorum()/.Faulty() compared with Common/Quorum.v"})
    if res["leader_bad"]:
        R.violation("leader-table", "wrapper leader(duty, round, nodes) differs from (slot+type+round) mod nodes", {"rows(off,n,round,leader)": res["leader_bad"][:20]})
