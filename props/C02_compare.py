"""Standalone run of the compare part of C02 (scratch id C02_compare)."""
import json
import os

import vp
import c02_compare


def main():
    # known findings of property C02 (and VERIF_KNOWN_EXTRA) apply to the scratch id too
    orig = vp.known_findings

    def kf():
        fs = list(orig())
        p = os.environ.get("VERIF_KNOWN_EXTRA")
        if p and os.path.exists(p):
            fs += json.load(open(p)).get("findings", [])
        return fs + [dict(f, property="C02_compare") for f in fs if f.get("property") == "C02"]
    vp.known_findings = kf
    R = vp.Result("C02_compare")
    c02_compare.run(R)
    R.coverage["rule"] = R.coverage.get("compare_rule", "")
    R.finish()
