"""C02 consensus agreement: theorems in coq/Properties/C02.v (agreement for the network semantics Qbft/Net.v without compare
failures, all n, <= f Byzantine; single-process invariants; quorum arithmetic); correspondence = per-process trace inclusion of the label sequences
recorded from the real core/qbft.Run in coq/Qbft/Model.v; global monitor on observed honest cluster executions:
no two Decide callbacks carry different values."""
import os

import vp
import qbft_engine as qe


def main():
    R = vp.Result("C02")
    R.assumptions = [
        "agreement is proved (Properties/C02.v) for executions in which Definition.Compare never reports a mismatch (default configuration), and (Properties/C02_cmp.v) for executions with compare failures whenever the verdict is a function of (process, value): CmpFail => cf i x and CmpOk => not cf i x, CmpTimeout free; with CmpOk unrestricted the statement is refuted (C02_cmp_refuted_if_cmpok_unrestricted)",
        "signatures and value hashes are symbolic: a message part with an honest source exists only if that member broadcast it; sources are cluster members (the wrapper rejects unknown peers)",
        "the model Qbft/Model.v is tied to core/qbft/qbft.go by sampled trace inclusion (one injected event at a time, quiescent between events via synctest.Wait); real races are interleavings of these atomic select-case bodies",
        "Go map-iteration nondeterminism is absorbed by admissibility checks (pick_ok / adm_qrc / fplus1_ok) that over-approximate the orders Go can produce",
        "not modelled: invalid message types (rejected by the wrapper before Run), failing Transport.Broadcast, context cancellation, nested justifications, int64 overflow of rounds",
        "agreement monitor is evaluated only on executions in which every process is a real honest qbft.Run (cluster-*); single-process adversarial sequences feed more than f forged sources and are outside the fault assumption",
    ]
    R.proofs(extra_targets=["Qbft/Corr.v"])
    n = 8000 if R.thorough else 500
    res = qe.run(R, n)
    qe.coverage(R, res)
    qe.report_common(R, res, "C02")
    for cid in res["c02"]:
        h = res["byid"][cid]
        if os.environ.get("VERIF_REPLAY") and cid in {x[0] for x in res.get("deliv", [])}:
            # the recorded events are not an execution on this tree (an honest message of the recording is never
            # broadcast here): the replay says nothing about this tree
            R.notes.append("replay: the recorded events are not an execution of Qbft/Net.v on this tree (a delivered honest part was never broadcast); no verdict")
            continue
        if not h["kind"].startswith("cluster"):
            continue
        R.violation("agreement:two-decides-differ", "two Decide callbacks of history %d (%s, n=%d) carry different values" % (cid, h["kind"], h["nodes"]),
                    qe.replay_obj(h))
    ncl = sum(1 for h in res["hs"] if h["kind"].startswith("cluster"))
    R.coverage["monitor"] = "C02: all Decide outputs of one execution carry the same value (cluster executions: %d); every cluster execution replayed as an execution of Qbft/Net.v by nrun (refused: %d)" % (ncl, len(res.get("net", [])))
    # CmpFail extension built separately: props/c02_cmp.py
    try:
        import c02_cmp
    except ImportError:
        c02_cmp = None
    if c02_cmp is not None:
        c02_cmp.run(R)
    # S1 tie: the wrapper's real Definition.Compare against the hypothesis trace_cmp_fun: props/c02_compare.py
    try:
        import c02_compare
    except ImportError:
        c02_compare = None
    if c02_compare is not None:
        c02_compare.run(R)
    # C05 -> C02 bridge theorems (accepted wire messages satisfy Net.v's deliverability premise)
    try:
        import c05_bridge
        c05_bridge.run(R)
    except ImportError:
        pass
    # S1 end to end: split decision on the real wrapper under chain_split_halt with re-typed values: props/c02_s1.py
    try:
        import c02_s1
    except ImportError:
        c02_s1 = None
    if c02_s1 is not None:
        c02_s1.run(R)
    # wrapper instance lifecycle (at most one qbft.Run per duty, none after expiry): a second instance for a
    # duty is an agreement hazard (seeded C02-r6m1/m2), so the C03_wrapper sub-check runs here too
    try:
        import c03_wrapper
        c03_wrapper.run(R)
    except ImportError:
        pass
    # construction (component built through NewConsensusController: index -> key table, n, quorum): props/c05_ctor.py
    try:
        import c05_ctor
        c05_ctor.run(R)
    except ImportError:
        pass
    R.finish()
