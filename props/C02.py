"""C02 consensus agreement: theorems in coq/Properties/C02.v (stage 1: quorum arithmetic for all n, commit-quorum
backing of every Decide of the model); correspondence = per-process trace inclusion of the label sequences
recorded from the real core/qbft.Run in coq/Qbft/Model.v; global monitor on observed honest cluster executions:
no two Decide callbacks carry different values."""
import vp
import qbft_engine as qe


def main():
    R = vp.Result("C02")
    R.assumptions = [
        "STAGE 1: the network-level agreement theorem (DESIGN.md C02, Dolev-Yao adversary with <= f Byzantine members) is NOT yet proved; Properties/C02.v holds the quorum-intersection arithmetic for every n >= 1 and the single-process fact that every Decide is backed by a commit quorum",
        "the model Qbft/Model.v is tied to core/qbft/qbft.go by sampled trace inclusion (one injected event at a time, quiescent between events via synctest.Wait); real races are interleavings of these atomic select-case bodies",
        "Go map-iteration nondeterminism is absorbed by admissibility checks (pick_ok / adm_qrc / fplus1_ok) that over-approximate the orders Go can produce",
        "not modelled: invalid message types (rejected by the wrapper before Run), failing Transport.Broadcast, context cancellation, nested justifications, int64 overflow of rounds",
        "agreement monitor is evaluated only on executions in which every process is a real honest qbft.Run (cluster-*); single-process adversarial sequences feed more than f forged sources and are outside the fault assumption",
    ]
    R.proofs()
    n = 8000 if R.thorough else 500
    res = qe.run(R, n)
    qe.coverage(R, res)
    qe.report_common(R, res, "C02")
    for cid in res["c02"]:
        h = res["byid"][cid]
        if not h["kind"].startswith("cluster") and h["kind"] != "replay":
            continue
        R.violation("agreement:two-decides-differ", "two Decide callbacks of history %d (%s, n=%d) carry different values" % (cid, h["kind"], h["nodes"]),
                    qe.replay_obj(h))
    R.coverage["monitor"] = "C02: all Decide outputs of one execution carry the same value (cluster executions: %d)" % sum(
        1 for h in res["hs"] if h["kind"].startswith("cluster"))
    R.finish()
