"""C12 cluster artefacts: theorems in coq/Properties/C12.v about the hash programs that
translator/hashprog regenerates from cluster/ssz.go on every run; translation validation (the Coq
model evaluated with SHA-256 must reproduce the hashes Go computes); field-mutation campaign and
decode/encode stability on golden, fresh and create-cluster files of every version; black-box
create-cluster / combine consistency with the charon binary built from the checked tree."""
import concurrent.futures
import hashlib
import json
import os
import re

import vp

PKG = "clusterhash"


def run_translator(R):
    rc, mc = vp.sh("go env GOMODCACHE", cwd=vp.REPO, env=vp.go_env())
    modcache = mc.strip().splitlines()[-1] if rc == 0 and mc.strip() else os.path.expanduser("~/go/pkg/mod")
    out = os.path.join(vp.COQ, "gen", "HashProgs.v")
    os.makedirs(os.path.dirname(out), exist_ok=True)
    with vp.locked("c12_translator"):
        rc, log = vp.sh("go run ./hashprog -repo %s -modcache %s -out %s" % (vp.REPO, modcache, out),
                        cwd=os.path.join(vp.VERIF, "translator"), env=vp.go_env(), timeout=600)
    if rc != 0:
        R.broke("correspondence:translator hashprog cannot translate cluster/ssz.go (model no longer tied to the code)", log[-2000:])
        return False
    return True


def build_charon(R):
    tag = hashlib.sha256(vp.REPO.encode()).hexdigest()[:8]
    binp = os.path.join(vp.WORK, "charon_" + tag)
    with vp.locked("c12_charon_" + tag):
        rc, log = vp.sh("go build -o %s ." % binp, cwd=vp.REPO, env=vp.go_env(), timeout=1500)
    if rc != 0:
        R.broke("correspondence:charon binary does not build from the checked tree", log[-2000:])
        return None
    return binp


def creator_signed_definitions(R):
    """Creator-signed definitions (operators without address) need the unexported cluster.signCreator:
    built in-package through `go test -overlay`, /repo untouched."""
    rc, out, od = vp.go_overlay_test("cluster", {"zz_verif_c12_test.go": os.path.join(vp.HARNESS, "overlay", "cluster", "zz_verif_c12_test.go")},
                                     run="TestVerifC12CreatorDefs", outdir=os.path.join(vp.WORK, "ov_cluster_c12"))
    fn = os.path.join(od, "c12_creator_defs.json")
    if rc != 0 or not os.path.exists(fn):
        R.broke("correspondence:creator-signed definitions cannot be built or do not verify (cluster overlay helper)", out[-2000:])
        return None
    return fn


def tv_file(envs, cases):
    used = sorted({c["env_id"] for c in cases})
    defs = "\n".join("Definition env_%d : value := %s." % (i, envs[i]) for i in used)
    rows = []
    for c in cases:
        want = "None" if c["want"] == "none" else "Some %s" % c["want"]
        rows.append("(%d%%nat, prog_%s, env_%d, %s)" % (c["id"], c["prog"], c["env_id"], want))
    return """From Coq Require Import List NArith String.
From Charon Require Import Codec.HashProg Codec.HashEval gen.HashProgs.
Import ListNotations.
Local Open Scope string_scope.
Local Open Scope N_scope.
%s
Definition cases : list (nat * hprog * value * option (list N)) := [
%s
].
Definition mismatches := Eval vm_compute in tv_mismatches cases.
Print mismatches.
""" % (defs, ";\n".join(rows))


def translation_validation(R, od):
    data = json.load(open(os.path.join(od, "c12_envs.json")))
    envs, cases = data["envs"], data["cases"]
    for g in (data.get("golden_mismatch") or []):
        if g.startswith("versions:"):
            R.broke("correspondence:" + g)
            continue
        R.violation("golden-hash:" + g.split(":")[0], "golden file of the repository no longer verifies: " + g,
                    {"file": "cluster/testdata/" + g.split(":")[0], "what": g})
    byid = {c["id"]: c for c in cases}
    groups = {}
    for c in cases:
        groups.setdefault(c["prog"].split("_", 1)[1], []).append(c)   # per version
    shards = []
    for ver, cs in sorted(groups.items()):
        for k, part in enumerate(vp.chunks(cs, 60)):
            shards.append(("C12_tv_%s_%d" % (ver, k), part))

    def run(sh):
        name, part = sh
        rc, out = vp.coq_eval(name, tv_file(envs, part), timeout=1200)
        return name, part, rc, out

    bad = 0
    with concurrent.futures.ThreadPoolExecutor(max_workers=max(2, min(12, vp.NPROC))) as ex:
        for name, part, rc, out in ex.map(run, shards):
            if rc != 0:
                R.broke("correspondence:translation validation file %s does not evaluate" % name, out[-2000:])
                bad += len(part)
                continue
            term = vp.parse_marked(out, "mismatches")
            if term is None:
                R.broke("correspondence:translation validation file %s printed no result" % name, out[-1000:])
                bad += len(part)
                continue
            for m in re.findall(r"(\d+)%?n?a?t?", term):
                c = byid.get(int(m))
                if c is None:
                    continue
                bad += 1
                R.broke("correspondence:translation validation mismatch: Coq root of prog_%s differs from the Go hash (%s)" % (c["prog"], c["src"]),
                        json.dumps({"prog": c["prog"], "src": c["src"], "go_hash": c["want"]}))
    progs = {}
    for c in cases:
        progs[c["prog"]] = progs.get(c["prog"], 0) + 1
    return len(cases), bad, progs


def replay_mode(R, binp):
    rp = json.load(open(os.environ["VERIF_REPLAY"]))
    inner = rp.get("replay", rp)
    env = {"VERIF_CHARON_BIN": binp or ""}
    if inner.get("mutation"):
        rc, out, od = vp.go_harness(PKG, run="TestReplay", env_extra=env)
        if rc != 0:
            R.broke("correspondence:replay harness failed", out[-2000:])
            R.finish()
        res = json.load(open(os.path.join(od, "c12_replay.json")))
        R.coverage["evaluations"] = 1
        R.coverage["samples"] = [res]
        print("replay %s %s %s (%s): original file verifies=%s, altered file verifies=%s %s" % (
            res["source"]["kind"], res["source"]["version"], inner["mutation"]["path"], inner["mutation"]["alt"],
            res["original_verifies"], res["mutated_verifies"], res.get("detail", "")))
        if res.get("panic_probe") or res["mutated_verifies"] == "panic":
            R.violation(rp.get("key", "panic:verify"), "replayed alteration makes verification panic: %s" % (res.get("panic_probe") or res.get("detail")), inner)
        elif res["original_verifies"] == "ok" and res["mutated_verifies"] == "ok":
            R.violation(rp.get("key", "mutation-verifies"), "replayed mutation still verifies: %s %s" % (inner["mutation"]["path"], inner["mutation"]["alt"]), inner)
    elif inner.get("shape") and inner.get("combine_tamper"):
        rc, out, od = vp.go_harness(PKG, run="TestCombineTamper", env_extra=env)
        if rc != 0:
            R.broke("correspondence:replay harness failed", out[-2000:])
            R.finish()
        res = json.load(open(os.path.join(od, "c12_combine_tamper.json"))) or []
        R.coverage["evaluations"] = sum(2 * len(r.get("cases") or []) for r in res)
        for r in res:
            for f in (r.get("failures") or [])[:3]:
                print("replay combine tamper: " + f)
                R.violation(rp.get("key", "combine-accepts-altered-lock-copy"), f, inner)
            if not r.get("failures"):
                print("replay combine tamper %s: all %d directory sets with an altered/foreign lock copy refused" % (json.dumps(r["shape"]), len(r.get("cases") or [])))
    elif inner.get("shape"):
        rc, out, od = vp.go_harness(PKG, run="TestBlackbox", env_extra=env)
        if rc != 0:
            R.broke("correspondence:replay harness failed", out[-2000:])
            R.finish()
        res = json.load(open(os.path.join(od, "c12_blackbox.json")))
        R.coverage["evaluations"] = sum(r["checks"] for r in res)
        R.coverage["samples"] = res[:1]
        for r in res:
            for f in (r.get("failures") or [])[:3]:
                f = re.sub(r"\x1b\[[0-9;]*m", "", f)
                print("replay create cluster %s: %s" % (json.dumps(r["shape"]), f[-300:]))
                R.violation(rp.get("key", "blackbox"), f[-300:], inner)
            if not r.get("failures"):
                print("replay create cluster %s: all %d checks pass" % (json.dumps(r["shape"]), r["checks"]))
    else:
        return   # other replays (golden hash, baseline, round trip) name a file of the tree: the full run re-checks it
    R.finish()


def main():
    R = vp.Result("C12")
    R.assumptions = [
        "SHA-256 (the 64-byte compression of the SSZ tree) is collision-free: premise `collision_free H` of every tamper-evidence theorem (shown satisfiable in the model); the collision lemmas hold for every H",
        "domain premise `dom`: a byte field that ssz.go hashes with a bare PutBytes has the size its ssz struct tag declares (v1.11 definition.config_hash = 32 via VerifyHashes; lock builder_registration.message.fee_recipient = 20 via verifyBuilderRegistrations since fix F14; v1.3/v1.4 fork_version, addresses, lock public keys), list lengths < 2^64; `fields` observes fixed-size byte fields left-padded (putBytesN hashes leftPad(b,n)) and addresses as their 20 decoded bytes",
        "the Go helpers putByteList/putBytesN/putHexBytes20/putK1SigList/leftPad/to0xHex/from0xHex/isAnyVersion/LegacyValidatorAddresses and fastssz hasher.go have hand-written Coq counterparts; the translator pins their source by digest and fails on any change; translation validation checks them on every run",
        "JSON codecs, EIP-712 / secp256k1 recovery, BLS verification, keystore encryption (insecure test cost) are exercised by the harness only, not modelled; lock_consistent is over an abstract field/vector space (Tbls/Shamir.v), the identification with BLS12-381 is by the C08 correspondence",
    ]
    translated = run_translator(R)
    R.proofs(extra_targets=["Codec/HashEval.v"])
    binp = build_charon(R)
    if os.environ.get("VERIF_REPLAY"):
        replay_mode(R, binp)

    per_version = 20 if R.thorough else 1
    env = {"VERIF_TV_PER_VERSION": per_version, "VERIF_CHARON_BIN": binp or ""}
    creator_defs = creator_signed_definitions(R)
    if creator_defs:
        env["VERIF_C12_CREATOR_DEFS"] = creator_defs
    tests = "TestGenEnvs|TestMutate" + ("|TestBlackbox|TestCombineTamper" if binp else "")
    # hard cap: no seed may stall the run (the harness also has a per-case timeout and its own time budget)
    env["VERIF_BUDGET_S"] = 1500 if R.thorough else 110
    rc, out, od = vp.go_harness(PKG, run=tests, env_extra=env, timeout=2400 if R.thorough else 170)
    if rc != 0:
        R.broke("correspondence:harness clusterhash failed to run", out[-3000:])
        R.finish()

    # (1) translation validation
    ntv, tvbad, progs = (0, 0, {})
    if translated:
        ntv, tvbad, progs = translation_validation(R, od)

    # (2) black box
    bb = (json.load(open(os.path.join(od, "c12_blackbox.json"))) or []) if binp else []
    bchecks = 0
    for r in bb:
        bchecks += r["checks"]
        for f in (r.get("failures") or [])[:2]:
            f = re.sub(r"\x1b\[[0-9;]*m", "", f)
            cls = re.sub(r"[^a-z]+", "-", re.sub(r"/tmp/\S+|0x[0-9a-f]+|\d+", "", f.lower()))[:60]
            key = "blackbox:" + cls
            if r["shape"].get("signed"):
                key = "create-cluster-signed-definition"
            rep = {"shape": r["shape"], "failure": f[-400:],
                   "how": "./check C12 --replay <this file> re-creates a cluster of this shape with the built binary and re-checks it"}
            if r.get("input_definition"):
                rep["definition_file"] = r["input_definition"]
                rep["command"] = "charon create cluster --insecure-keys --cluster-dir=<dir> --definition-file=<definition_file>"
            R.violation(key, "create cluster %s: %s" % (json.dumps({k: v for k, v in r["shape"].items() if k != "definition"}), f[-300:]), rep)

    # (2b) combine against directory sets with one altered / foreign lock copy
    ct = (json.load(open(os.path.join(od, "c12_combine_tamper.json"))) or []) if binp else []
    ctcases = 0
    for r in ct:
        ctcases += 2 * len(r.get("cases") or [])
        for f in (r.get("failures") or [])[:3]:
            key = "combine-accepts-altered-lock-copy" if "accepted a directory set" in f else (
                "combine-distinct-shares" if f.startswith("combine of folders") else "blackbox:combine-tamper-setup")
            R.violation(key, "combine after create cluster %s: %s" % (json.dumps(r["shape"]), f),
                        {"shape": r["shape"], "combine_tamper": True, "failure": f,
                         "how": "./check C12 --replay <this file>: create cluster of this shape, write the altered lock (stored lock_hash kept) into one node directory, run cmd/combine.Combine with verification"})
    R.coverage["combine_tamper"] = [{"shape": r["shape"], "cases": r.get("cases"), "folder_sets": r.get("folder_sets")} for r in ct]
    ctcases += sum(len(r.get("folder_sets") or []) for r in ct)

    # (3) mutations, decode/encode stability
    mu = json.load(open(os.path.join(od, "c12_mutate.json")))
    for b in (mu.get("baseline_failures") or []):
        R.violation("baseline:" + " ".join(b.split()[:3]), b, {"what": b})
    for f in (mu.get("round_trip_failures") or []):
        R.violation("roundtrip:" + " ".join(f.split()[:3]), "decode/encode stability: " + f, {"what": f})
    seen = set()
    for s in (mu.get("survivors") or []):
        k = (s["key"], s["source"]["kind"], s["source"]["version"], vp.digest(s["mutation"]))
        if k in seen:
            continue
        seen.add(k)
        R.violation(s["key"], "%s %s: altering %s (%s: %s -> %s) still passes verification" % (
            s["source"]["kind"], s["source"]["version"], s["mutation"]["path"], s["mutation"]["alt"], s.get("orig"), s.get("new")),
            {"source": s["source"], "mutation": s["mutation"],
             "how": "./check C12 --replay <this file> rebuilds the file, re-applies the alteration and runs VerifyHashes/VerifySignatures"})
    for n in (mu.get("notes") or []):
        R.notes.append("harness: " + n)
    if mu.get("skipped_over_budget"):
        R.notes.append("harness: %d mutants skipped because the time budget was used up" % mu["skipped_over_budget"])
    lc = mu.get("large_count_probe") or []
    if lc:
        R.coverage["large_count_probe"] = lc
        slow = [r for r in lc if r["outcome"] in ("timeout", "crashed") or r["seconds"] > 5]
        dec = [r for r in lc if r["outcome"] == "decoded"]
        if dec:
            R.notes.append("reading note (outside C12): a definition of %s with num_validators=%d (validators untouched) is DECODED, allocating %.0f MiB in %.1f s (~%.0f bytes per unit of the unchecked count: cluster/definition.go unmarshalDefinitionV1x0or1/V1x2or3/V1x4 call repeatVAddrs(num_validators) before any check); from v1.5 the decoder rejects the mismatch" % (
                ", ".join(r["version"] for r in dec), dec[0]["num_validators"], dec[0]["alloc_mib"], max(r["seconds"] for r in dec), dec[0].get("alloc_bytes_per_unit_of_count", 0)))
        for r in slow:
            R.notes.append("large-count probe %s: %s after %.1f s %s" % (r["version"], r["outcome"], r["seconds"], r.get("detail", "")))
    pseen = set()
    for s in (mu.get("panics") or []):
        if s["key"] in pseen:
            continue
        pseen.add(s["key"])
        R.violation(s["key"], "%s %s: altering %s (%s) makes verification PANIC instead of returning an error: %s" % (
            s["source"]["kind"], s["source"]["version"], s["mutation"]["path"], s["mutation"]["alt"], s.get("orig")),
            {"source": s["source"], "mutation": s["mutation"], "panic": s.get("orig"),
             "how": "./check C12 --replay <this file> rebuilds the file, re-applies the alteration and runs VerifyHashes/VerifySignatures"})

    triples = len({k for k in mu["coverage"]})
    R.coverage["evaluations"] = ntv + mu["mutants"] + bchecks + mu["round_trips"] + ctcases
    R.coverage["distinct_nontrivial"] = ntv - tvbad + triples + len(bb)
    R.coverage["rule"] = ("translation validation: (hash program, environment) pairs whose Coq-evaluated SHA-256 root equals the Go hash, golden files of all 12 versions + fresh signed locks + random edge-case shapes (field lengths 0/31/32/33/64/65/256, 0-9 deposit amounts, 0-7 operators, over-long fields that must fail) — each counts once; "
                          "mutation campaign: every JSON node of golden/fresh/create-cluster files x representative alterations (flip first/middle/last byte, append/prepend/drop a byte, empty, NUL, case, +-1, zero, negate, delete, array drop/dup/swap/empty); non-trivial = distinct (version, leaf pattern) pairs with at least one value-changing alteration judged; "
                          "black box: create-cluster shapes from flags and from definition files of every version (nodes x threshold x validators x network x deposit-amount lists in every order with repeats x compounding x per-validator addresses x unsigned / creator-signed definition; operator-signed definitions must be REFUSED without writing a lock), each with input-definition == lock-definition, lock verification, key-share/public-share match, deposit and registration checks and combine of threshold subsets; combine tamper: one node directory holds a raw-edited lock copy (hashed field / signature_aggregate / node_signatures / validators reordered, stored lock_hash kept) or belongs to another cluster, at first/middle/last position: combine with verification must refuse; combine folder sets: duplicated / renamed / surplus node folders in any directory order: combine recovers the lock's validator keys iff at least threshold DISTINCT shares are present")
    R.coverage["input_distribution"] = {
        "translation_validation": {"cases": ntv, "mismatches": tvbad, "per_program": progs},
        "mutation": {"files": mu["files"], "mutants": mu["mutants"], "rejected_by": mu["classes"], "per_alteration": mu["by_alt"],
                     "round_trips": mu["round_trips"]},
        "blackbox": [{"shape": {k: v for k, v in r["shape"].items() if k != "definition"}, "version": r["version"], "refused_as_required": bool(r.get("refused")),
                      "subsets_combined": r["subsets_combined"], "checks": r["checks"]} for r in bb],
    }
    R.coverage["not_covered_by_any_hash_or_signature"] = mu["allowed"]
    R.coverage["hash_only_gaps_closed_by_other_checks"] = mu["hash_only_gaps_closed_by_other_checks"]
    R.coverage["leaf_coverage"] = {k: v for k, v in sorted(mu["coverage"].items())}
    # JSON nodes whose value changes are never rejected by a hash comparison (only by the decoder or a signature check)
    R.coverage["leaves_protected_by_signatures_or_decoder_only"] = sorted(k for k, v in mu["coverage"].items() if "hashes" not in v)
    R.coverage["traces_validated_against_impl"] = ntv
    R.add_samples([s for s in (mu.get("survivors") or [])][:2])
    R.finish()
