"""C19 multi-node beacon client: theorems in coq/Properties/C19.v about the model coq/Flow/Multi.v of
eth2wrap provide/submit; correspondence = every call observed on the real multi client (scripted
nodes, virtual time) must be reproduced by the model (result, instant of return, which nodes were
called / cancelled and when) and pass the trace monitor that transcribes the property."""
import collections
import concurrent.futures
import json
import os
import re

import vp

HEAD = """From Coq Require Import List NArith Bool.
From Charon Require Import Flow.Multi.
Import ListNotations.
Local Open Scope N_scope.
"""


def cases_v(cs):
    rows = ["(%d, %s)" % (c["id"], c["coq"]) for c in cs if not c.get("scoq") and not c.get("lcoq")]
    lrows = ["(%d, %s)" % (c["id"], c["lcoq"]) for c in cs if c.get("lcoq")]
    srows = ["(%d, %s)" % (c["id"], c["scoq"]) for c in cs if c.get("scoq")]
    return HEAD + """Definition cases : list (N * case) := [
%s
].
Definition scases : list (N * scase) := [
%s
].
Definition lcases : list (N * lcase) := [
%s
].
Definition bad := Eval vm_compute in
  flat_map (fun c => match check_case (snd c) with O => [] | k => [(fst c, k)] end) cases
  ++ flat_map (fun c => match check_scoped (snd c) with O => [] | k => [(fst c, k)] end) scases
  ++ flat_map (fun c => match check_lazy (snd c) with O => [] | k => [(fst c, k)] end) lcases.
Print bad.
""" % (";\n".join(rows), ";\n".join(srows), ";\n".join(lrows))


def class_v(rows):
    items = ["(%d, %s, %s)" % (i, r["kind"], "true" if r["consulted"] else "false") for i, r in enumerate(rows)]
    return HEAD + """Definition table : list (N * ekind * bool) := [
%s
].
Definition cls_bad := Eval vm_compute in
  flat_map (fun r => if Bool.eqb (unavail (kind_class (snd (fst r)))) (snd r) then [] else [(fst (fst r), 0%%nat)]) table.
Print cls_bad.
""" % ";\n".join(items)


FU_CANCEL_MS, FU_TIMEOUT_MS = 200, 30000


def firstuse_v(rows):
    """Canonical labels (ms) of the real-HTTP first-use runs: a node that never answers behind the real
    provider is a Hang node behind a provider bounded by the beacon-node timeout; a return within the
    margin is recorded as a return at the cancellation instant, a late one at its measured time."""
    items = []
    for i, r in enumerate(rows):
        ms = r["rerun_ms"] if r["rerun_ms"] >= 0 else r["elapsed_ms"]
        t = FU_CANCEL_MS if r["status"] == "ok" else ms
        hung = "mkn Hang 0 false"
        if r["variant"] == "hung-primary":
            pp, pf, prim, fb, sp, sf = "[PDelay %d]" % FU_TIMEOUT_MS, "[]", "[%s]" % hung, "[]", "[Cancelled %d]" % t, "[]"
        elif r["variant"] == "two-hung-primaries":
            pp, pf, prim, fb, sp, sf = "[PDelay %d; PDelay %d]" % (FU_TIMEOUT_MS, FU_TIMEOUT_MS), "[]", "[%s; %s]" % (hung, hung), "[]", "[Cancelled %d; Cancelled %d]" % (t, t), "[]"
        else:
            pp, pf, prim, fb, sp, sf = "[PDelay 0]", "[PDelay %d]" % FU_TIMEOUT_MS, "[mkn (Err Gateway) 1 false]", "[%s]" % hung, "[Done 1]", "[Cancelled %d]" % t
        items.append("(%d, mkl %s %s (mkc %s %s %s [] [] (Some %d) RCtx (Some %d) %s %s))" % (i, pp, pf, r["style"], prim, fb, FU_CANCEL_MS, t, sp, sf))
    return HEAD + """Definition lcases : list (N * lcase) := [
%s
].
Definition fu_bad := Eval vm_compute in
  flat_map (fun c => match check_lazy (snd c) with O => [] | k => [(fst c, k)] end) lcases.
Print fu_bad.
""" % ";\n".join(items)


def pairs(term):
    return [(int(a), int(b)) for a, b in re.findall(r"\((\d+)%?n?a?t?, (\d+)%?n?a?t?\)", term or "")]


def spec_of(c):
    return {k: c[k] for k in ("kind", "style", "prim", "fb", "cancel", "scoped") if k in c and c[k] is not None}


def describe(c):
    def g(ns):
        def pv(n):
            p = n.get("prov")
            if not p:
                return ""
            if p["kind"] == "created":
                return "lazy(created) "
            if p["kind"] == "fail":
                return "lazy(provider fails:%s after %d) " % (p.get("class"), p.get("delay", 0))
            return "lazy(provider takes %d) " % p.get("delay", 0)
        return "[" + ", ".join("%s%s%s%s@%d" % (pv(n), "ctx-ignoring " if n.get("deaf") else "", n["out"], ":" + n["class"] if n.get("class") else "", n["delay"]) for n in ns) + "]"
    s = "%s primaries=%s fallbacks=%s" % (c["style"], g(c["prim"]), g(c["fb"]))
    if c.get("cancel"):
        s += " cancel@%d%s" % (c["cancel"]["at"], "(deadline)" if c["cancel"]["deadline"] else "")
    if c.get("scoped"):
        sc = c["scoped"]
        s += " [lazy clients; %sclients existing at scoping: primaries %s fallbacks %s; called through ClientForAddress(%r)]" % (
            "after an earlier %s call (%s); " % (sc["warm"], c.get("warm_res")) if sc.get("warm") else "", c.get("obs_init_p") or [], c.get("obs_init_f") or [], sc["addr"])
    s += " -> observed %s at %s, primaries %s, fallbacks %s" % (c["res"], c["time"], c["sp"], c["sf"])
    if any(c["bodies"]):
        s += ", request bodies read by the nodes %s" % c["bodies"]
    return s


def key_of(c):
    """Stable key of a monitor violation, by the clause of the property that is broken."""
    if any(b.startswith("bad:") for b in c["bodies"]):
        return "proxy-body-not-delivered"
    if c.get("scoped") and c["scoped"]["addr"] in ("", "unknown"):
        return "unscoped-client-lost-nodes"
    succ = [n for n in c["prim"] if n["out"] == "ok" and not (n.get("prov") or {}).get("kind") == "fail"]
    if succ and not c.get("cancel"):
        if not c["res"].startswith("(ROk (P"):
            return "success-missed"
        if c["time"] != min(n["delay"] + (n.get("prov") or {}).get("delay", 0) for n in succ):
            return "waited-for-slower-node"
        return "wrong-answer"
    if c["res"] == "RBug" and c["prim"]:
        return "internal-error-with-primaries"
    if c.get("cancel"):
        return "cancel-not-prompt"
    called = any(s != "NotCalled" for s in c["sf"])
    if c["res"] == "RBlocked" or c["time"] < 0:
        return "blocked-without-hung-node"
    return "fallback-consulted-wrongly" if called else "fallback-not-consulted"


def main():
    R = vp.Result("C19")
    R.assumptions = [
        "node calls may ignore cancellation of their context (model: deaf); the call returns not later than the caller's cancellation whenever some awaited node honours its context; when ONLY context-ignoring calls are awaited the code notices the cancellation with the next result (theorem C19_cancel_waits_when_only_deaf_awaited) - the monitor is silent there",
        "latency is judged in virtual time (testing/synctest): 'does not wait' = the instant of return equals the latency of the fastest successful primary; goroutine scheduling cost of the real runtime is not measured",
        "the HTTP stack (go-eth2-client, lazy/httpAdapter wrappers) is not exercised; errors are constructed values of the types the classification functions inspect",
        "mixed failures (some primaries fail with an unavailability error, some with another error): the code decides on the LAST completing failure; the property text does not determine this case, so the monitor constrains only the unambiguous cases (all / none unavailable) and the theorem C19_fallback_mixed_depends_on_order states what the code does",
        "with a success predicate (NodeSyncing, AggregateAttestation) a rejected answer of the last completing node is returned with a nil error (model: Soft / RSoft); such answers are treated as 'did not answer successfully'",
        "zero primaries (only constructible with NewMultiForT; Instrument refuses) returns 'bug: no forkjoin results' without consulting fallbacks",
    ]
    R.proofs()
    # application wiring (app/app.go), regenerated from the source on every run: translator/appwire -> coq/gen/AppWiring.v
    rc_t, out_t = vp.run_translator("appwire", "AppWiring.v")
    R.coverage["translator_appwire"] = out_t.strip().splitlines()[-1] if out_t.strip() else "rc=%d" % rc_t
    if rc_t != 0:
        R.broke("translator:appwire failed on %s/app/app.go (a construction shape it can not interpret; obligation C19_app_clients_get_configured_fallbacks)" % vp.REPO, out_t[-3000:])
    vp.sub_proofs(R, "C19_app", "app")

    env = {}
    replay = os.environ.get("VERIF_REPLAY")
    fu_only = None
    if replay:
        try:
            rp = json.load(open(replay))
            rp = rp.get("replay", rp)
            if rp.get("kind") == "firstuse":
                fu_only = rp["name"]
        except (OSError, ValueError, AttributeError):
            pass
    # the lazy wrapper's constructor is unexported: one add-only file is overlaid into app/eth2wrap (build tag verif)
    os.makedirs(os.path.join(vp.WORK, "multi"), exist_ok=True)
    ovp = os.path.join(vp.WORK, "multi", "overlay_%s.json" % vp.digest(vp.REPO))
    with open(ovp, "w") as f:
        json.dump({"Replace": {os.path.join(vp.REPO, "app/eth2wrap/zz_verif_export.go"):
                               os.path.join(vp.HARNESS, "overlay/app_eth2wrap/zz_verif_export.go")}}, f)
    # real-HTTP first-use runs (wall clock; a handful)
    fu_rows = []
    if not replay or fu_only:
        fenv = {"VERIF_FIRSTUSE": fu_only} if fu_only else {}
        rc, out, od = vp.go_harness("multi", run="TestFirstUse", env_extra=fenv, timeout=600, extra_args="-overlay " + ovp)
        try:
            fu_rows = json.load(open(os.path.join(od, "multi_firstuse.json"))) if rc == 0 else []
        except (OSError, ValueError):
            fu_rows = []
        if rc != 0 or not fu_rows:
            R.notes.append("firstuse: the real-HTTP harness could not run (rc=%d); skipped, not a finding" % rc)
    if fu_only:
        data = {"cases": [], "classification": []}
    else:
        rc, out, od = vp.go_harness("multi", env_extra=env, timeout=1200, extra_args="-overlay " + ovp)
        if rc != 0:
            R.broke("correspondence:harness multi failed to run", out[-3000:])
            R.finish()
        data = json.load(open(os.path.join(od, "multi_cases.json")))
    cs = data["cases"]
    for c in cs:
        for k in ("prim", "fb", "sp", "sf", "bodies"):
            c[k] = c.get(k) or []
    byid = {c["id"]: c for c in cs}
    R.coverage["evaluations"] = len(cs) + len([r for r in fu_rows if r["status"] != "skipped"])
    R.coverage["distinct_nontrivial"] = len({vp.digest(c["coq"]) for c in cs if c.get("nontrivial")})
    R.coverage["rule"] = ("one evaluation = one call of the real multi client (Instrument / NewMultiForT) against scripted nodes in a synctest bubble; "
                          "kinds: corpus, exhaustive (every outcome vector over {success, timeout, syncing, gateway, other error, hang[, rejected answer]} and every completion order: "
                          "<= 2 primaries x <= 1 fallback at quick (full product, 3 styles); <= 3 x <= 2 at thorough: full product for Plain and Submit, for Pred the fallback group is fully enumerated whenever no primary succeeds or hangs and reduced to 4 groups otherwise), "
                          "wide (9..40 nodes in a group, as primaries and as fallbacks: a success behind n-1 hung / slow nodes, and one healthy node at a random position among 17..40 hung / slow / failing ones, with a hung prefix of at least 16 or anywhere - every node must be queried at once whatever the group size), cancel (a cancellation or deadline in every gap of the run's timeline, and an already cancelled context), random (up to 6 primaries, 4 fallbacks), ties (equal latencies); "
                          "deaf (node calls that ignore cancellation and return after an hour: next to a quick success, in the fallback round, next to an ordinary in-flight call when the caller cancels or its deadline passes; every 2-primary vector with every choice of context-ignoring nodes x cancellation gaps), "
                          "scoped (multi clients over lazy wrappers, as NewMultiHTTP builds them, called through ClientForAddress with \"\", every configured address and an unknown one; every combination of created / not yet created clients, fresh and after an earlier call; the label is evaluated as a call of the client the model's scope rule yields, nodes outside it must stay uncalled), "
                          "lazy (nodes wrapped in the real lazy client: provider immediate / 3 ms / 30 s / failing, first use or client already created, x node outcomes, single nodes exhaustively and pairs sampled at quick / exhaustive at thorough, a cancellation or deadline in every gap; evaluated through Multi.lazy_node), "
                          "firstuse (REAL HTTP, wall clock: eth2wrap.NewMultiHTTP with a 30 s node timeout over httptest servers that accept and never answer - one or two hung primaries, or a 503 primary and a hung fallback - first-ever request, Spec and SubmitProposalPreparations, caller cancels after 200 ms; must return within 5 s; a time between 5 s and 24 s is re-measured alone; harness start-up problems are skipped), "
                          "styles: Plain = SlotsPerEpoch, Pred = NodeSyncing (success predicate), Submit = SubmitAttestations, Proxy = multi.Proxy with a POST body (each node reads the body it is handed, in completion order; a node that does not get the caller's body answers 400); "
                          "non-trivial = at least 2 primaries and the result is a fallback's answer, a node's error, or a primary's answer although another primary failed or hangs; distinct by the whole label")
    R.coverage["input_distribution"] = {
        "kinds": dict(collections.Counter(c["kind"] for c in cs)),
        "styles": dict(collections.Counter(c["style"] for c in cs)),
        "results": dict(collections.Counter(c["res"].strip("()").split()[0] for c in cs)),
        "results_by_group": dict(collections.Counter(" ".join(c["res"].replace("(", " ").split()[:2]) for c in cs)),
        "node_status": dict(collections.Counter(s.split()[0] for c in cs for s in c["sp"] + c["sf"])),
        "primaries": dict(collections.Counter(len(c["prim"]) for c in cs)),
        "fallbacks": dict(collections.Counter(len(c["fb"]) for c in cs)),
        "with_cancellation": sum(1 for c in cs if c.get("cancel")),
        "scoped_by_address": dict(collections.Counter((c["scoped"]["addr"] or '""')[:1] for c in cs if c.get("scoped"))),
        "lazy_providers": dict(collections.Counter((n.get("prov") or {}).get("kind", "-") + (":%d" % n["prov"].get("delay", 0) if n.get("prov") and n["prov"]["kind"] != "created" else "") for c in cs if c.get("lcoq") for n in c["prim"] + c["fb"])),
        "scoped_warm": sum(1 for c in cs if c.get("scoped") and c["scoped"].get("warm")),
        "with_context_ignoring_node": sum(1 for c in cs if any(n.get("deaf") for n in c["prim"] + c["fb"])),
        "proxy_bodies_read": sum(1 for c in cs for b in c["bodies"] if b),
        "fallbacks_called": sum(1 for c in cs if any(s != "NotCalled" for s in c["sf"])),
        "classification_rows": len(data.get("classification") or []),
        "firstuse_real_http": {r["name"]: "%s %dms%s" % (r["status"], r["elapsed_ms"], " (rerun %dms)" % r["rerun_ms"] if r["rerun_ms"] >= 0 else "") for r in fu_rows},
    }
    R.add_samples([{"spec": spec_of(c), "label": c["coq"]} for c in cs if c.get("nontrivial")][:2])

    # first use over real HTTP: canonical labels through the lazy-node model
    judged = [r for r in fu_rows if r["status"] != "skipped"]
    for r in fu_rows:
        if r["status"] == "skipped":
            R.notes.append("firstuse %s skipped: %s" % (r["name"], r.get("why")))
    if judged:
        rc, out = vp.coq_eval("C19_firstuse", firstuse_v(judged))
        if rc != 0:
            R.broke("correspondence:cases_C19_firstuse does not compile", out[-3000:])
        else:
            for i, code in pairs(vp.parse_marked(out, "fu_bad")):
                r = judged[i]
                R.violation("firstuse-cancel-not-prompt",
                            "first request to a node that never answers, through eth2wrap.NewMultiHTTP (beacon-node timeout %d ms), %s, %s call, caller cancels after %d ms: the call returned after %d ms%s with %s" % (
                                FU_TIMEOUT_MS, r["variant"], r["style"], FU_CANCEL_MS, r["elapsed_ms"],
                                " (repeated alone: %d ms)" % r["rerun_ms"] if r["rerun_ms"] >= 0 else "", r["err"]),
                            {"kind": "firstuse", "name": r["name"], "variant": r["variant"], "style": r["style"],
                             "how": "./check C19 --replay <this file> re-runs this real-HTTP case alone (harness/multi/firstuse_test.go)"})
    if not replay and data.get("instrument_empty") != "refused":
        R.broke("correspondence:eth2wrap.Instrument accepts an empty primary list", "")

    # classification table
    rows = data.get("classification") or []
    if rows:
        rc, out = vp.coq_eval("C19_class", class_v(rows))
        if rc != 0:
            R.broke("correspondence:cases_C19_class does not compile", out[-3000:])
        else:
            for i, _ in pairs(vp.parse_marked(out, "cls_bad")):
                r = rows[i]
                R.violation("classification:" + r["kind"].strip("()").replace(" ", ""),
                            "a single primary failing with %s: fallback consulted = %s, the classification table of the model says %s" % (r["kind"], r["consulted"], not r["consulted"]),
                            r.get("spec") or {"kind": "classify", "style": r["style"], "error": r["kind"]})

    shards = list(vp.chunks(cs, 1000))

    def ev(arg):
        i, shard = arg
        return i, vp.coq_eval("C19_%d" % i, cases_v(shard))

    with concurrent.futures.ThreadPoolExecutor(max_workers=min(8, vp.NPROC)) as ex:
        results = list(ex.map(ev, enumerate(shards)))
    nmon = nrej = 0
    reported = set()
    for i, (rc, out) in results:
        if rc != 0:
            R.broke("correspondence:cases_C19_%d does not compile" % i, out[-3000:])
            continue
        for cid, code in pairs(vp.parse_marked(out, "bad")):
            c = byid[cid]
            if code == 1:
                nmon += 1
                reported.add(cid)
                if nmon <= 20:
                    R.violation(key_of(c), "observed call violates the C19 monitor: " + describe(c), spec_of(c))
            else:
                nrej += 1
                if nrej <= 20:
                    R.broke("correspondence:Multi model does not reproduce observed call %d" % cid, describe(c) + "\n" + c["coq"])
    # a node that was handed the proxied request must be able to read the body the caller sent
    for c in cs:
        if any(b.startswith("bad:") for b in c["bodies"]) and c["id"] not in reported:
            R.violation("proxy-body-not-delivered", "a node did not receive the request body: " + describe(c), spec_of(c))
    # harness-level inconsistencies (an answer that is nobody's, a node called twice, a blocked call
    # that does not return on cancellation ...), after the monitor's findings
    for c in cs:
        if c.get("problems"):
            R.violation("harness-inconsistency", "; ".join(c["problems"]) + " :: " + describe(c), spec_of(c))
    R.coverage["traces_validated_against_impl"] = len(cs)
    R.coverage["monitor_failures"] = nmon
    R.coverage["model_rejections"] = nrej
    R.finish()
