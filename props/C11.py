"""C11 DKG (FROST) consistency.

Theorems: coq/Properties/C11.v (Tbls/Frost.v on top of Tbls/Shamir.v).
Correspondence: harness/overlay/dkg (go test -overlay, package dkg) runs the unexported runFrostParallel
on n in-process nodes over an in-memory transport with random arrival/release orders; the group-side
statements are checked on the real curve in Go (same group key and public shares on all nodes, secret
share matches public share, any t public shares reconstruct the key, threshold signatures of t-subsets
verify), and Coq decides on the produced scalars that the n secret shares of every validator lie on
one polynomial of degree < t (vsr-style check of Tbls/ShamirZ.v, sound by C08_vsr_checkZ_sound)."""
import json
import os
import re

import vp

OVERLAY = {"zz_verif_c11_test.go": os.path.join(vp.HARNESS, "overlay", "dkg", "zz_verif_c11_test.go")}

HEADER = """From Coq Require Import ZArith List Bool.
From Charon Require Import Tbls.ShamirZ Tbls.ShamirCorr.
Import ListNotations.
Local Open Scope Z_scope.
"""


def zl(xs):
    return "[" + "; ".join(str(x) for x in xs) + "]"


def main():
    R = vp.Result("C11")
    R.assumptions = [
        "kryptology's FROST participant is modelled (Feldman split = a polynomial of degree < t per node and validator; Round2 = own share + received shares over the ids in the broadcast map), not verified; its zero-knowledge and Feldman checks are not part of the model",
        "transport contract: every node receives exactly the messages addressed to it, each once, in an arbitrary order (frostp2p.go source/target/validator-index validation and dedup; reliable broadcast is property C13); all n nodes are honest",
        "pairing-group hypotheses and admissible ids 1..n as in C08; the Coq decision 'on one polynomial of degree < t' (vsr_checkZ at the BLS12-381 scalar order r) is sound by C08_vsr_checkZ_sound_r (r proved prime in Tbls/PrimeR.v)",
        "the ceremony draws its randomness inside kryptology (crypto/rand): the check is relational on the produced outputs, a replay re-runs the configuration with the same order seed",
    ]
    R.proofs(extra_targets=["Tbls/ShamirCorr.v"])

    rc, out, od = vp.go_overlay_test("dkg", OVERLAY, run="TestVerifC11")
    if rc != 0:
        R.broke("correspondence:overlay test dkg failed to run", out[-3000:])
        R.finish()
    o = json.load(open(os.path.join(od, "c11_cases.json")))
    cer = o.get("ceremonies") or []
    for v in o.get("violations") or []:
        R.violation(v["key"], v["what"], v["replay"])

    rows, owner = [], {}
    for c in cer:
        for vi, val in enumerate(c.get("validators") or []):
            i = len(rows)
            owner[i] = (c, vi)
            rows.append("(%d%%nat, (%d%%nat, %s))" % (i, val["t"], zl(val["shares"])))
    jobs = []
    for si, shard in enumerate(vp.chunks(rows, 40 if R.thorough else 25)):
        text = (HEADER + "Definition cases : list (nat * (nat * list Z)) := [\n%s\n].\n"
                "Definition dkg_bad := Eval vm_compute in bad dkg_ok cases.\nPrint dkg_bad.\n" % ";\n".join(shard))
        jobs.append(("C11_%d" % si, text))
    from concurrent.futures import ThreadPoolExecutor
    with ThreadPoolExecutor(max_workers=max(2, min(8, vp.NPROC // 2))) as ex:
        results = list(ex.map(lambda j: vp.coq_eval(j[0], j[1]), jobs))
    for (name, _), (rc, out) in zip(jobs, results):
        if rc != 0:
            R.broke("correspondence:cases_%s does not compile" % name, out[-3000:])
            continue
        term = vp.parse_marked(out, "dkg_bad")
        if term is None:
            R.broke("correspondence:cases_%s printed no result" % name, out[-2000:])
            continue
        for i in [int(x) for x in re.findall(r"\d+", term.replace("nat", ""))]:
            c, vi = owner[i]
            R.violation("dkg:secret-shares-not-on-one-polynomial",
                        "n=%d t=%d validators=%d: the %d secret shares of validator %d do not lie on one polynomial of degree < t (decided by vsr_checkZ in Coq)"
                        % (c["n"], c["t"], c["vals"], c["n"], vi), c)

    nvals = len(rows)
    checks = o.get("checks") or {}
    R.coverage["evaluations"] = len(cer)
    R.coverage["distinct_nontrivial"] = len({(c["n"], c["t"], c["vals"], json.dumps(c.get("release_orders")), json.dumps(c.get("completion_order"))) for c in cer if not c.get("err")})
    R.coverage["rule"] = ("one evaluation = one in-process ceremony (n nodes calling dkg.runFrostParallel concurrently over the in-memory transport); "
                          "non-trivial = the ceremony completed on all nodes (then all group-side checks and the Coq polynomial check ran on its outputs); "
                          "distinct by (n, t, validators, release orders of both rounds, completion order)")
    R.coverage["input_distribution"] = {"ceremonies": o.get("dist"), "validators_checked_in_coq": nvals, "go_checks": checks}
    if checks.get("below_threshold_RECONSTRUCTS"):
        R.notes.append("t-1 public shares reconstructed the group key in %d sampled cases (threshold lower than configured)" % checks["below_threshold_RECONSTRUCTS"])
    R.add_samples([{k: c[k] for k in ("n", "t", "vals", "release_orders", "completion_order")} for c in cer if not c.get("err")][:2])
    R.finish()
