"""C11 DKG consistency (FROST and Pedersen ceremonies).

Theorems: coq/Properties/C11.v (Tbls/Frost.v on top of Tbls/Shamir.v).
Correspondence, three ceremony classes, all checked with the same monitor on the real curve (same group
key and public shares on all nodes, secret share matches public share, every (sampled above 40)
t-subset of public shares reconstructs the key and of partial signatures verifies, t-1 public shares do
not reconstruct) and with the Coq decision on the produced scalars (the n secret shares of every
validator lie on one polynomial of degree exactly t-1; vsr_checkZ, sound by C08_vsr_checkZ_sound_r):
  mem      harness/overlay/dkg  runFrostParallel over an in-memory transport, random arrival/release orders
  p2p      harness/overlay/dkg  runFrostParallel over the REAL frostP2P transport (bcast/p2p callbacks, Round1/2,
                                real libp2p hosts), broadcast delivery by an in-process stand-in that controls order and
                                multiplicity: shuffled, identical re-deliveries, "duplicate of A before the late message of B"
                                for round-1 casts, p2p shares and round-2 casts
  pedersen harness/c11ped       dkg/pedersen.RunDKG in-process, n = 3..6, all t = 2..n (incl. t <= n/2 and t = n); and repeated ceremonies
                                on the same hosts with a straggler val_pubkey_share of the abandoned session delivered to one node
  run      harness/overlay/dkg  (package dkg_test) FULL dkg.Run ceremonies (libp2p nodes, local relay, frost / pedersen, lock and
                                deposit signing, artefacts on disk) incl. the add-validators (append) flow; the monitor runs on the
                                ARTEFACTS: locks load+verify and are identical, keystore-i matches lock.Validators[i].PubShares[node],
                                t-subsets reconstruct / sign under lock.Validators[i].PubKey, deposit data verify.
                                quick: ONE append scenario (a plain ceremony, checked, then add-validators), shape rotating with the
                                seed, plus one small plain ceremony of the other algorithm; thorough: frost and pedersen plain ceremonies and two append scenarios"""
import json
import os
import re

import vp

OVERLAY = {"zz_verif_c11_test.go": os.path.join(vp.HARNESS, "overlay", "dkg", "zz_verif_c11_test.go"),
           "zz_verif_c11p2p_test.go": os.path.join(vp.HARNESS, "overlay", "dkg", "zz_verif_c11p2p_test.go"),
           "zz_verif_c11run_test.go": os.path.join(vp.HARNESS, "overlay", "dkg", "zz_verif_c11run_test.go")}

HEADER = """From Coq Require Import ZArith List Bool.
From Charon Require Import Tbls.ShamirZ Tbls.ShamirCorr.
Import ListNotations.
Local Open Scope Z_scope.
"""

# safety violations first, so that they are the ones written as replays
ORDER = ["dkg:group-key-differs", "dkg:public-shares-differ", "dkg:secret-share-mismatch", "dkg:pubshares-do-not-reconstruct",
         "dkg:threshold-signature-invalid", "dkg:fewer-than-t-shares-reconstruct", "dkg:secret-shares-not-on-one-polynomial"]


def zl(xs):
    return "[" + "; ".join(str(x) for x in xs) + "]"


def main():
    R = vp.Result("C11")
    R.assumptions = [
        "kryptology's FROST participant and kyber's Pedersen DKG are modelled (each dealer contributes a polynomial of degree < t per validator; a node's share is the sum of what was routed to it), not verified; their zero-knowledge / Feldman / complaint machinery is not part of the model",
        "theorems: transport contract = every node receives exactly the messages addressed to it, each once, in an arbitrary order, all n nodes honest; that frostp2p.go establishes this contract from a network that re-delivers and re-orders is not a theorem — it is exercised by the real-transport ceremony class (reliable broadcast itself is property C13)",
        "the full ceremony (dkg.Run: sync, lock-hash / deposit / registration signing and aggregation, writing artefacts, add-validators flow) has no Coq model: it is covered by the artefact monitor on sampled scenarios only (one append scenario per quick run, rotating by seed)",
        "faulty participants: one faulty FROST participant / up to two faulty Pedersen dealers of the kinds listed in the coverage rule; equivocation (a broadcast that differs per receiver) is excluded because the reliable broadcast (C13), which the harness replaces by a stand-in, makes it undeliverable. With faults 'successful ceremony' is read as success on ALL nodes; a ceremony in which some node reports an error is outside the property and only counted",
        "message LOSS is outside the fault model of pedersen.RunDKG (kyber's DKG assumes a reliable channel): one lost deal bundle makes RunDKG return success on all nodes with different group keys (RunDKG does not compare Result.QUAL) — recorded as reading note N-C11-QUAL, because the full ceremony dkg.Run then aborts on every node ('timed out waiting for peer signatures': the lock hashes differ), which the lossy dkg.Run scenario re-checks",
        "Pedersen ceremonies are covered by correspondence against the same C08/C11 theorems about the joint polynomial (degree < t), there is no separate Coq model of dkg/pedersen",
        "pairing-group hypotheses and admissible ids 1..n as in C08; the Coq decision 'on one polynomial of degree exactly t-1' (vsr_checkZ at the BLS12-381 scalar order r) is sound by C08_vsr_checkZ_sound_r (r proved prime in Tbls/PrimeR.v)",
        "the ceremonies draw their randomness internally (crypto/rand): the check is relational on the produced outputs, a replay re-runs the configuration (same delivery plan / order seed) three times",
    ]
    R.proofs(extra_targets=["Tbls/ShamirCorr.v"])

    replay = None
    if os.environ.get("VERIF_REPLAY"):
        try:
            replay = json.load(open(os.environ["VERIF_REPLAY"]))
            replay = replay.get("replay", replay)
        except (OSError, ValueError) as e:
            R.broke("replay file unreadable", str(e))
            R.finish()
        if not isinstance(replay, dict) or ("n" not in replay and "ids" not in replay):
            os.environ.pop("VERIF_REPLAY", None)
            replay = None
    share_cases, share_dist = 0, None
    want = {"mem", "p2p", "pedersen", "pedfaults", "run", "share"}
    if replay is not None:
        if replay.get("ids"):
            want = {"share"}
        elif replay.get("pedersen_faults"):
            want = {"pedfaults"}
        elif replay.get("full_run"):
            want = {"run"}
        elif replay.get("algo") == "pedersen":
            want = {"pedersen"}
        else:
            want = {"p2p"} if replay.get("p2p") else {"mem"}

    def do_mem():
        rc, out, od = vp.go_overlay_test("dkg", OVERLAY, run="TestVerifC11$", outdir=os.path.join(vp.WORK, "ov_dkg_mem"))
        return "in-memory transport", rc, out, os.path.join(od, "c11_cases.json")

    def do_p2p():
        rc, out, od = vp.go_overlay_test("dkg", OVERLAY, run="TestVerifC11P2P$", timeout=1200, outdir=os.path.join(vp.WORK, "ov_dkg_p2p"))
        return "real frostP2P transport", rc, out, os.path.join(od, "c11p2p_cases.json")

    def do_run():
        rc, out, od = vp.go_overlay_test("dkg", OVERLAY, run="TestVerifC11Run$", timeout=1500, outdir=os.path.join(vp.WORK, "ov_dkg_run"))
        return "full dkg.Run", rc, out, os.path.join(od, "c11run_cases.json")

    def do_pedf():
        rc, out, od = vp.go_overlay_test("dkg/pedersen", {"zz_verif_c11ped_test.go": os.path.join(vp.HARNESS, "overlay", "dkg_pedersen", "zz_verif_c11ped_test.go")},
                                         run="TestVerifC11PedFaults$", timeout=1200, outdir=os.path.join(vp.WORK, "ov_dkg_pedf"))
        return "pedersen with faults", rc, out, os.path.join(od, "c11pedfaults_cases.json")

    def do_ped():
        rc, out, od = vp.go_harness("c11ped", timeout=1200)
        return "pedersen", rc, out, os.path.join(od, "c11ped_cases.json")

    from concurrent.futures import ThreadPoolExecutor
    if "share" in want:
        # dkg/share.MsgFromShare: the published public-share list is in share-index order (cheap, direct)
        rc, out, od = vp.go_harness("c11share")
        if rc != 0:
            R.broke("correspondence:harness c11share failed to run", out[-3000:])
        else:
            so = json.load(open(os.path.join(od, "c11share_cases.json")))
            for v in so.get("violations") or []:
                R.violation(v["key"], v["what"], v["replay"])
            share_cases = so.get("cases", 0)
            share_dist = so.get("dist")
    todo = [(c, f) for c, f in (("mem", do_mem), ("p2p", do_p2p), ("pedersen", do_ped), ("pedfaults", do_pedf), ("run", do_run)) if c in want]
    with ThreadPoolExecutor(max_workers=5) as ex:
        done = list(ex.map(lambda cf: (cf[0], cf[1]()), todo))
    runs = []  # (class, output dict)
    for cls, (name, rc, out, pth) in done:
        if rc != 0:
            R.broke("correspondence:harness for ceremony class '%s' failed to run" % name, out[-3000:])
        else:
            runs.append((cls, json.load(open(pth))))

    found = []
    rows, owner = [], {}
    dist, checks, ncer, distinct = {}, {}, 0, set()
    for cls, o in runs:
        cer = o.get("ceremonies") or []
        ncer += len(cer)
        for v in o.get("violations") or []:
            found.append((v["key"], v["what"], v["replay"]))
        for v in o.get("notes") or []:
            R.notes.append("%s: %s" % (v["key"], v["what"]))
        for c in cer:
            if c.get("flow") == "lossy":
                R.notes.append("N-C11-QUAL at the level of the full ceremony: dkg.Run (pedersen, n=%d t=%d) with the %s bundle of node %d to node %d lost (%s streams dropped): %s"
                               % (c["n"], c["t"], c["drop"]["kind"], c["drop"]["from"], c["drop"]["to"], c.get("streams_dropped"),
                                  ("every node's verdict: " + "; ".join(c.get("node_errors") or [])) if c.get("node_errors") else "dkg.Run returned nil on all nodes and the artefacts passed the monitor"))
        for c in cer:
            if not c.get("err") or c.get("pedersen_faults") or (c.get("p2p") or {}).get("fault"):
                distinct.add((cls, c["n"], c["t"], c["vals"], c.get("algo"), c.get("flow"), json.dumps(c.get("stale_session")), json.dumps(c.get("pedersen_faults")), json.dumps(c.get("drop")), json.dumps(c.get("p2p")), json.dumps(c.get("release_orders")), json.dumps(c.get("completion_order")), c.get("id") if cls == "pedersen" else 0))
            for vi, val in enumerate(c.get("validators") or []):
                i = len(rows)
                owner[i] = (cls, c, vi)
                rows.append("(%d%%nat, (%d%%nat, %s))" % (i, val["t"], zl(val["shares"])))
        dist[cls] = o.get("dist")
        for k, n in (o.get("checks") or {}).items():
            checks[k] = checks.get(k, 0) + n

    jobs = []
    for si, shard in enumerate(vp.chunks(rows, 40 if R.thorough else 25)):
        text = (HEADER + "Definition cases : list (nat * (nat * list Z)) := [\n%s\n].\n"
                "Definition dkg_bad := Eval vm_compute in bad dkg_ok cases.\nPrint dkg_bad.\n" % ";\n".join(shard))
        jobs.append(("C11_%d" % si, text))
    with ThreadPoolExecutor(max_workers=max(2, min(8, vp.NPROC // 2))) as ex:
        results = list(ex.map(lambda j: vp.coq_eval(j[0], j[1]), jobs))
    for (name, _), (rc, out) in zip(jobs, results):
        if rc != 0:
            R.broke("correspondence:cases_%s does not compile" % name, out[-3000:])
            continue
        term = vp.parse_marked(out, "dkg_bad")
        if term is None:
            R.broke("correspondence:cases_%s printed no result" % name, out[-2000:])
            continue
        for i in [int(x) for x in re.findall(r"\d+", term.replace("nat", ""))]:
            cls, c, vi = owner[i]
            found.append(("dkg:secret-shares-not-on-one-polynomial",
                          "%s ceremony n=%d t=%d validators=%d: the %d secret shares of validator %d do not lie on one polynomial of degree exactly t-1 = %d (decided by vsr_checkZ in Coq: either some share is off the common polynomial or the sharing has another degree than configured)"
                          % (cls, c["n"], c["t"], c["vals"], c["n"], vi, c["t"] - 1), c))
    found.sort(key=lambda f: ORDER.index(f[0]) if f[0] in ORDER else len(ORDER))
    for key, what, rp in found:
        R.violation(key, what, rp)

    R.coverage["evaluations"] = ncer + share_cases
    R.coverage["distinct_nontrivial"] = len(distinct) + share_cases
    R.coverage["rule"] = ("one evaluation = one in-process ceremony (all n nodes run concurrently): FROST through dkg.runFrostParallel over an in-memory transport, "
                          "FROST over the real frostP2P transport with controlled order and multiplicity of deliveries, Pedersen through pedersen.RunDKG (also as a second ceremony on the same hosts with a straggler message of the abandoned session), "
                          "or a full dkg.Run scenario (plain / add-validators, with tolerated stray artefact siblings of an earlier ceremony in some data dirs, or with per-node keymanagers that are healthy / answer 500 / hang) whose artefacts (disk or keymanager) are checked; "
                          "FROST over the real transport with ONE faulty participant (threshold +-1, extra / missing commitment, wrong ValIdx / SourceID / TargetID, share sent to the wrong target, shares of two validators exchanged; one round-1 payload carrying at position k >= 1 a cast that claims another member's or a non-member's source id, delivered before / after that member's genuine cast, "
                          "with an attribution monitor on every node's Round1 result: a cast held under source s is the one s broadcast), "
                          "Pedersen with scripted faulty dealers (1 or 2 dealers deal an undecryptable share: complaint + justification must recover) and with lost deal / response / justification bundles (lossy stream wrapper); "
                          "plus one evaluation per direct call of dkg/share.MsgFromShare (share index map -> published list: dense index sets 1..n for every n = 1..40, sparse sets, large indices; position i-1 of the published list must hold the public share of index i); "
                          "non-trivial = the ceremony completed on all nodes (then all group-side checks and the Coq polynomial check ran on its outputs) or it ran with an injected fault (then it must fail or complete consistently); "
                          "distinct by (class, n, t, validators, delivery plan / release and completion orders)")
    ran = []
    for cls, o in runs:
        if cls == "run":
            ran = ["%s %s n=%d t=%d vals=%d%s%s (%.0fs)" % (c.get("algo"), c.get("flow"), c["n"], c["t"], c["vals"], ("+%d" % c["add"]) if c.get("add") else "", (" no-verify" if c.get("no_verify") else "") + ((" dirty-dirs=%s" % c["dirty_nodes"]) if c.get("dirty_nodes") else "") + ((" keymanagers=%s" % c["keymanager"]) if c.get("keymanager") else ""), c.get("seconds", 0))
                   for c in (o.get("ceremonies") or [])]
    R.coverage["input_distribution"] = {"ceremonies": dist, "share_to_published_list_cases": share_dist, "validators_checked_in_coq": len(rows), "go_checks": checks,
                                        "full_dkg_run_scenarios_this_run": ran,
                                        "full_dkg_run_note": "quick runs ONE append scenario (plain ceremony + add-validators, artefacts of both checked), rotating frost / pedersen / default by seed, plus one plain FROST ceremony with a LOW threshold (n=4 t=2 / n=5 t=3 / n=5 t=2, rotating) and NoVerify=true, and one such pedersen ceremony when the append scenario is not pedersen; thorough runs frost and pedersen plain ceremonies, two append scenarios, the lossy scenarios and all low-threshold configurations with NoVerify true and false"}
    samples = []
    for cls, o in runs:
        for c in (o.get("ceremonies") or []):
            if not c.get("err"):
                samples.append({"class": cls, **{k: c.get(k) for k in ("algo", "flow", "n", "t", "vals", "add", "stale_session", "p2p", "release_orders", "completion_order") if c.get(k) is not None}})
                break
    R.add_samples(samples, 4)
    R.finish()
