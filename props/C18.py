"""C18 values passed between workflow components are isolated copies.

Theorems in coq/Properties/C18.v over the heap model coq/Stores/Heap.v: if every component boundary
path is `clone`, every history is isolated (and one `share` entry breaks it).  Which Go paths are
clone is decided by observation: harness/alias drives the real components, intersects the memory
reachable from the values held by different parties and mutates every reachable leaf of one while
re-reading the others.  The observed table (path x value type) is written to gen/cases_C18_*.v and
compared by Coq (vm_compute) with the all-clone table the theorem assumes; every `share` entry is
a violation with key alias:<path>:<type>."""
import json
import os
import re

import vp

T0 = "(TNode [TLeaf 0; TLeaf 0])"
T1 = "(TNode [TLeaf 1; TLeaf 0])"


def trace_of(i, o):
    """Abstract history of one observation (handle 0 = the source value)."""
    seen = T1 if o["changed"] else T0
    if o["shape"] == "direct":
        # A crossed the boundary and became the observer's value; A is written; the observer reads
        ls = ["LAlloc %s" % T0, "LCross %d 0" % i, "LRead 1 %s" % T0, "LMutate 0 [0] 1", "LRead 1 %s" % seen]
    else:
        # two values came out of the same source; the first is written; the second is read
        ls = ["LAlloc %s" % T0, "LCross %d 0" % i, "LCross %d 0" % i, "LRead 2 %s" % T0, "LMutate 1 [0] 1", "LRead 2 %s" % seen]
    return "(%d%%nat, [%s])" % (i, "; ".join(ls))


def cases_v(entry_rows, obs_rows, traces):
    return """From Coq Require Import List Arith Bool.
From Charon Require Import Stores.Heap.
Import ListNotations.
(* observed boundary policy per (path, value type) entry; the theorems assume all_clone *)
Definition entry_table : table := [
%s
].
(* per observation: share iff the two values have heap memory in common (address intersection) *)
Definition obs_table : table := [
%s
].
(* per observation: the abstract history whose last read is what the mutation test saw *)
Definition traces : list (nat * list label) := [
%s
].
Definition assumed := Eval vm_compute in all_clone entry_table.
Definition shares := Eval vm_compute in share_entries entry_table.
Definition rejects := Eval vm_compute in
  flat_map (fun c => match first_reject (pol_of obs_table) init (snd c) 0 with Some i => [(fst c, i)] | None => [] end) traces.
Definition monitor_hits := Eval vm_compute in
  flat_map (fun c => match first_violation [] (snd c) 0 with Some i => [(fst c, i)] | None => [] end) traces.
Definition uncovered := Eval vm_compute in
  flat_map (fun c => if covered obs_table (snd c) then [] else [fst c]) traces.
Print assumed.
Print shares.
Print rejects.
Print monitor_hits.
Print uncovered.
""" % (";\n".join(entry_rows), ";\n".join(obs_rows), ";\n".join(traces))


def nats(term):
    return [int(x) for x in re.findall(r"\d+", term or "")]


def pairs(term):
    return [(int(a), int(b)) for a, b in re.findall(r"\(\s*(\d+)(?:%nat)?\s*,\s*(\d+)(?:%nat)?\s*\)", term or "")]


def known_extra():
    p = os.environ.get("VERIF_KNOWN_EXTRA")
    if not p or not os.path.exists(p):
        return []
    try:
        return [f for f in json.load(open(p)).get("findings", []) if f.get("property") == "C18" and f.get("status") == "known"]
    except (OSError, ValueError):
        return []


def component(path):
    return path.split(".")[0]


def only_for(path):
    """VERIF_ONLY selector of the harness section that produces the path."""
    if "(cancelled while" in path:
        return "race"
    if path.startswith("core."):
        return "consensus"
    return component(path)


def main():
    R = vp.Result("C18")
    R.assumptions = [
        "model: values are finite trees of scalar cells; a boundary crossing either deep-copies into fresh cells (clone) or hands out the same root (share); partial sharing (a shallow copy) is classified share by the harness, which is what the theorem's premise needs (no common location at all)",
        "which paths are clone is established by observation of the probed value types on the probed API paths, not proved for the Go code; value types that no exported constructor builds, and paths the harness does not drive (p2p transports, consensus, bcast, tracker), are outside",
        "memory outside the Go heap (package-level variables, read-only data), string bytes, func values, channels, sync primitives, *time.Location, zero-size objects, zero-length slices and interface boxes are not counted as shared mutable memory (listed per run in coverage.input_distribution.ignored)",
        "slice capacity beyond len is not inspected (an append by one holder into spare capacity shared with another is not observed)",
        "concurrent data races on memory shared inside one component (e.g. the scheduler cloning a definition set while an epoch is being resolved) are not observed; the harness is sequential/quiescent",
        "random value contents come from testutil (crypto/math rand), not from VERIF_SEED: verdicts depend on the code path, not on the contents",
    ]
    R.proofs()
    env = {"VERIF_TIER": R.tier}
    replay = None
    if os.environ.get("VERIF_REPLAY"):
        try:
            rp = json.load(open(os.environ["VERIF_REPLAY"]))
            replay = rp.get("replay", rp)
            env["VERIF_ONLY"] = only_for(replay["path"])
            env["VERIF_TIER"] = "thorough"
        except (OSError, ValueError, KeyError) as e:
            R.broke("replay:cannot read replay file", str(e))
            R.finish()
    rc, out, od = vp.go_harness("alias", env_extra=env, timeout=900)
    obs_path = os.path.join(od, "c18_obs.json")
    if rc != 0 or not os.path.exists(obs_path):
        R.broke("correspondence:harness alias failed to run", out[-3000:])
        R.finish()
    data = json.load(open(obs_path))
    obs = data["obs"] or []
    if replay:
        obs = [o for o in obs if o["path"] == replay["path"] and o["type"] == replay["type"]]
        if not obs:
            R.broke("replay:the replayed (path, type) was not observed", json.dumps(replay)[:500])
            R.finish()
    if not data.get("selftest_ok"):
        R.broke("correspondence:observation self-test failed (walker no longer sees known aliasing or sees aliasing where there is none)",
                "\n".join(data.get("selftest", [])))

    # (path, type) entries
    entries = {}
    for i, o in enumerate(obs):
        k = (o["path"], o["type"])
        e = entries.setdefault(k, {"id": len(entries), "obs": [], "share": False})
        e["obs"].append(i)
        if o["verdict"] == "share":
            e["share"] = True
    ents = sorted(entries.items(), key=lambda kv: kv[1]["id"])

    R.coverage["evaluations"] = len(obs)
    nontriv = {(o["path"], o["type"]) for o in obs if o["regions"] > 0 and o["leaves"] > 0}
    R.coverage["distinct_nontrivial"] = len(nontriv)
    R.coverage["rule"] = ("one probe = a (component API path, value type) pair driven on the real component: the value held by one party is intersected by address with the values held by the other parties "
                          "and then mutated in every reachable heap leaf while the others are compared before/after (snapshot by reflection, including unexported fields; queries are asked again); "
                          "non-trivial = the mutated value reaches at least one heap region and at least one mutable leaf (value types without pointers, e.g. SignedRandao, are trivially isolated); distinct by (path, type)")
    bycomp, bytype, byshape = {}, {}, {}
    for o in obs:
        bycomp[component(o["path"])] = bycomp.get(component(o["path"]), 0) + 1
        tk = o["type"].split("/")[0]
        bytype[tk] = bytype.get(tk, 0) + 1
        byshape[o["shape"]] = byshape.get(o["shape"], 0) + 1
    skipped = sorted(set(data.get("skipped") or []))
    R.coverage["input_distribution"] = {
        "tier": data.get("tier"), "kinds": data.get("kinds"), "probes_by_component": bycomp, "probes_by_value_type": bytype,
        "probes_by_shape": byshape, "paths": sorted({o["path"] for o in obs}), "entries": len(ents),
        "leaves_mutated_total": sum(o["leaves"] for o in obs), "regions_total": sum(o["regions"] for o in obs),
        "static_overlaps_ignored": sum(o["static"] for o in obs), "ignored": data.get("ignored"),
        "skipped": skipped, "selftest": data.get("selftest"),
    }
    R.add_samples([{k: o[k] for k in ("path", "type", "shape", "mutated", "observers", "regions", "leaves", "verdict")}
                   for o in obs if o["regions"] > 0][:1]
                  + [{k: o[k] for k in ("path", "type", "shape", "mutated", "observers", "regions", "leaves", "verdict")}
                     for o in obs if o["path"].startswith("fetcher")][:1], limit=2)

    # Coq side: observed table vs assumed table; consistency of the two observation methods
    coq_shares, coq_hits, coq_rej, ok_all = set(), set(), [], True
    for shard_i, shard in enumerate(vp.chunks(list(range(len(obs))), 1000)):
        sh = set(shard)
        entry_rows = ["(%d%%nat, %s) (* %s | %s *)" % (e["id"], "Share" if e["share"] else "Clone", k[0], k[1])
                      for k, e in ents if sh & set(e["obs"])]
        # memory held inside a component is not visible to the address intersection: a change seen
        # only by asking the component again is attributed to it (share), everything else must
        # agree between the two observation methods
        obs_rows = ["(%d%%nat, %s)" % (i, "Share" if obs[i]["overlap"] > 0 or (obs[i]["changed"] and obs[i].get("hidden")) else "Clone") for i in shard]
        traces = [trace_of(i, obs[i]) for i in shard]
        rc, cout = vp.coq_eval("C18_%d" % shard_i, cases_v(entry_rows, obs_rows, traces))
        if rc != 0:
            R.broke("correspondence:cases_C18 does not compile", cout[-3000:])
            ok_all = False
            continue
        if "true" not in (vp.parse_marked(cout, "assumed") or ""):
            ok_all = False
        coq_shares |= set(nats(vp.parse_marked(cout, "shares")))
        coq_hits |= {a for a, _ in pairs(vp.parse_marked(cout, "monitor_hits"))}
        coq_rej += pairs(vp.parse_marked(cout, "rejects"))
        for u in nats(vp.parse_marked(cout, "uncovered")):
            R.broke("correspondence:trace %d uses a path outside the observed table" % u)
    py_shares = {e["id"] for _, e in ents if e["share"]}
    if coq_shares != py_shares:
        R.broke("correspondence:share entries computed by Coq %s differ from the driver's %s" % (sorted(coq_shares), sorted(py_shares)))
    if ok_all != (not py_shares):
        R.broke("correspondence:all_clone evaluated by Coq disagrees with the observed table")
    for i, idx in coq_rej:
        o = obs[i]
        if o["overlap"] > 0:
            R.broke("correspondence:observation methods disagree on %s [%s]: heap memory in common (%s) but no mutation of %s was seen by %s"
                    % (o["path"], o["type"], o["overlap_at"], o["mutated"], o["observers"]), json.dumps(o))
        else:
            R.broke("correspondence:observation methods disagree on %s [%s]: %s changed without any heap memory in common" % (o["path"], o["type"], o["what"]), json.dumps(o))
    for i, o in enumerate(obs):
        if o["changed"] != (i in coq_hits):
            R.broke("correspondence:monitor verdict for observation %d differs from the harness" % i)
    R.coverage["traces_validated_against_impl"] = len(obs)
    R.coverage["observed_table"] = {"clone": len(ents) - len(py_shares), "share": len(py_shares)}

    extras = known_extra()
    extra_seen = set()
    # the driver prints at most five violations: put one entry per API path (variants such as
    # "(blocked)" folded) first, so that every affected path is named
    shared = [(k, e) for k, e in ents if e["share"]]
    first, rest, seen = [], [], set()
    for k, e in shared:
        base = re.sub(r"\([^)]*\)", "", k[0])
        (rest if base in seen else first).append((k, e))
        seen.add(base)
    for k, e in first + rest:
        o = next(obs[i] for i in e["obs"] if obs[i]["verdict"] == "share")
        key = "alias:%s:%s" % k
        wild = "alias:%s:*" % k[0]   # a listed finding may cover every value type of a path
        if any(f.get("key") == wild for f in extras + [f for f in vp.known_findings() if f.get("property") == "C18"]):
            key = wild
        what = ("%s [%s]: %s shares mutable memory with %s" % (k[0], k[1], o["mutated"], o["observers"]))
        rep = {"path": k[0], "type": k[1], "shape": o["shape"], "mutated": o["mutated"], "observers": o["observers"],
               "leaf_mutated": o["leaf"] or ("every heap leaf reachable from: " + o["mutated"]),
               "what_changed": o["what"], "memory_in_common": o["overlap_at"], "overlapping_regions": o["overlap"],
               "how": "./check C18 --replay <this file> drives the same component path with the same value type against /repo"}
        m = next((f for f in extras if f.get("key") == key), None)
        if m and m.get("id", key) in extra_seen:
            continue
        if m:
            extra_seen.add(m.get("id", key))
            print("KNOWN-FINDING: property=C18 %s (%s) [VERIF_KNOWN_EXTRA]" % (m.get("what", what), m.get("id", key)))
            R.notes.append("known-extra finding seen: " + key)
            continue
        R.violation(key, what, rep)
    R.finish()
