"""C07 partial-signature store: theorems in coq/Properties/C07.v; correspondence = trace inclusion of
the atomic label sequences recorded from core/parsigdb (real MemDB, scripted deadliner, real
ParSignedData values) in the model coq/Stores/ParSigDB.v, plus the trace monitor on every observed
history."""
import concurrent.futures
import json
import os
import re

import vp


def cases_v(hs):
    rows = []
    for h in hs:
        obs = "; ".join({1: "Some true", 0: "Some false"}.get(v, "None") for v in h.get("verdicts") or [])
        rows.append("(%d, %d, [%s], [%s])" % (h["id"], h["t"], "; ".join(h["labels"]), obs))
    return """From Coq Require Import List Arith Bool.
From Charon Require Import Stores.ParSigDB.
Import ListNotations.
Definition cases0 : list (nat * nat * list label * list (option bool)) := [
%s
].
Definition cases : list (nat * nat * list label) := Eval vm_compute in map fst cases0.
Definition cid (c : nat * nat * list label) := fst (fst c).
Definition cth (c : nat * nat * list label) := snd (fst c).
Definition verdict_bad := Eval vm_compute in
  flat_map (fun c => match verdict_mismatch (cth (fst c)) init (snd (fst c)) (snd c) 0 with Some i => [(cid (fst c), i)] | None => [] end) cases0.
Definition rejects := Eval vm_compute in
  flat_map (fun c => match first_reject (cth c) false false init (snd c) 0 with Some i => [(cid c, i)] | None => [] end) cases.
Definition monitor_hits := Eval vm_compute in
  flat_map (fun c => match first_violation (cth c) ginit (snd c) 0 with Some i => [(cid c, i)] | None => [] end) cases.
Definition status_bad := Eval vm_compute in
  flat_map (fun c => if status_ok (snd c) then [] else [(cid c, 0)]) cases.
Definition evicting := Eval vm_compute in
  flat_map (fun c => if no_evict (cth c) (snd c) then [] else [(cid c, 0)]) cases.
Print rejects.
Print verdict_bad.
Print monitor_hits.
Print status_bad.
Print evicting.
""" % ";\n".join(rows)


def pairs(term):
    # Coq breaks long lists anywhere, also inside a pair: drop all white space first
    flat = re.sub(r"\s+", "", term or "")
    return [(int(a), int(b)) for a, b in re.findall(r"\((\d+)(?:%nat)?,(\d+)(?:%nat)?\)", flat)]


def duplicate_delivery(h):
    """Index of the first AEnd that delivers a (duty, pubkey, sub, root) group already delivered
    since the last trim of the duty, or None. Independent of the Coq model."""
    duty_of = {}
    delivered = set()
    for i, o in enumerate(h["obs"]):
        if o["l"] == "begin":
            duty_of[o["c"]] = (o.get("slot", 0), o.get("type", 0))
        elif o["l"] == "trim":
            d = (o.get("slot", 0), o.get("type", 0))
            delivered = {x for x in delivered if x[0] != d}
        elif o["l"] == "end" and o.get("out"):
            for k, root in o["out"].items():
                x = (duty_of.get(o["c"]), k, root)
                if x in delivered:
                    return i, x
                delivered.add(x)
    return None


def replay_obj(h, idx=None):
    r = {"t": h["t"], "script": h["script"], "labels": h["labels"], "kind": h["kind"],
         "how": "./check C07 --replay <this file> re-runs the script against /repo (real parsigdb.MemDB)"}
    if idx is not None:
        r["index"] = idx
    return r


def classify(h, idx):
    """Stable key for a monitor failure at label idx."""
    lab = h["labels"][idx] if idx < len(h["labels"]) else ""
    if lab.startswith("AEnd"):
        dd = duplicate_delivery(h)
        if dd is not None and dd[0] == idx:
            return "F1a:refire-after-threshold", "a (duty, validator, root) group that had already been delivered is delivered again"
        o = h["obs"][idx]
        if o.get("err", "ENone") != "ENone":
            return "F1b:batch-loss", "a set with a rejected entry: the threshold subscribers did not get exactly what the other entries of the set had reached (or the remaining entries were not processed)"
    return "trace-monitor", "observed trace violates the C07 monitor"


def main():
    R = vp.Result("C07")
    R.assumptions = [
        "threshold subscribers and internal subscribers return nil; MessageRoot / Clone / json.Marshal of well-formed core values do not fail; threshold >= 1",
        "payload identity = the JSON encoding compared by parSignedDataEqual; message root = MessageRoot() (both observed from the real values, interned per history); DutySignature has no message root (all partials of a key form one group, as in the code)",
        "the deadliner contract used by the guarded theorems (status_ok): Exempt exactly for DutyExit / DutyBuilderRegistration, those are never emitted on C(). Histories in which a scripted deadliner answers against the duty type are checked for trace inclusion only",
        "at-most-once across a Trim is not claimed: after Trim(duty) the store starts afresh for that duty (the repo's own TestMemDBThreshold expects a second trigger); with the real deadliner Add answers Expired from then on, except for calls whose Add raced the deadline",
        "exempt duties: theorems hold under no_evict (no (share, validator, duty type) gets more than 10 accepted exempt entries, i.e. evictExemptShareEntryUnsafe never runs); C07_evict_refire_witness shows the guard is necessary. On evicting histories the check applies trace inclusion and an independent duplicate-delivery detector",
    ]
    # the store's threshold is the aggregator's threshold, lock.Threshold: a fact about app/app.go wireCoreWorkflow,
    # regenerated from the source on every run (translator/appwire -> coq/gen/AppWiring.v; theorem C07_app_threshold)
    rc, out = vp.run_translator("appwire", "AppWiring.v")
    R.coverage["translator_appwire"] = out.strip().splitlines()[-1] if out.strip() else "rc=%d" % rc
    if rc != 0:
        R.broke("translator:appwire failed on %s/app/app.go wireCoreWorkflow (a construction shape it can not interpret; obligation C07_app_threshold)" % vp.REPO, out[-3000:])
    R.proofs()
    n = 1500 if R.thorough else 300
    perm = 5 if R.thorough else 4
    rc, out, od = vp.go_harness("parsigdb", env_extra={"VERIF_N": n, "VERIF_PERM": perm}, timeout=1200)
    if rc != 0:
        R.broke("correspondence:harness parsigdb failed to run", out[-3000:])
        R.finish()
    hs = json.load(open(os.path.join(od, "parsigdb_traces.json")))
    R.coverage["evaluations"] = len(hs)
    seen = set()
    for h in hs:
        if h.get("nontrivial"):
            seen.add(vp.digest(h["labels"]))
    R.coverage["distinct_nontrivial"] = len(seen)
    R.coverage["rule"] = ("histories of StoreExternal / StoreInternal / Trim against the real parsigdb.MemDB with a scripted deadliner and real core.ParSignedData values "
                          "(kinds: corpus = minimised F1a / F1b / exempt-eviction / expired+trim shapes; perm<n> = every arrival order of n shares x every assignment of two roots, plus a duplicate and an equivocation; "
                          "permsample<n>; random; multi = multi-validator sets with an equivocating and a duplicate entry in the set that reaches the threshold; exempt = more than 10 exits / registrations per share; "
                          "conc = goroutines storing concurrently, critical-section order observed through the probe values); "
                          "non-trivial = at least one threshold delivery and at least one entry ignored or rejected (observed same-share comparison, returned error, or a repeated (key, share) in the script); distinct by hash of the observed label sequence")
    kinds = {}
    nlabels = 0
    lab_kinds = {"ABegin": 0, "AEntry": 0, "AEnd": 0, "ATrim": 0}
    types = {}
    stat = {"Expired": 0, "Scheduled": 0, "Exempt": 0}
    errs = {"ENone": 0, "EMismatch": 0, "EOther": 0}
    internal = deliveries = ebad = 0
    for h in hs:
        kinds[h["kind"]] = kinds.get(h["kind"], 0) + 1
        nlabels += len(h["labels"])
        for l in h["labels"]:
            lab_kinds[l.split(" ", 1)[0]] += 1
            if l.startswith("AEntry") and "EBad" in l:
                ebad += 1
        for o in h["obs"]:
            if o["l"] == "begin":
                types[str(o.get("type", 0))] = types.get(str(o.get("type", 0)), 0) + 1
                stat[o["status"]] += 1
            elif o["l"] == "end":
                errs[o.get("err", "ENone")] += 1
                deliveries += len(o.get("out") or {})
        internal += sum(1 for l in h["labels"] if l.startswith("ABegin") and " true " in l)
    overlapping = 0
    for h in hs:
        if h["kind"] != "conc":
            continue
        open_calls, seen_overlap = set(), False
        for o in h["obs"]:
            if o["l"] == "begin":
                open_calls.add(o["c"])
            elif o["l"] == "end":
                open_calls.discard(o["c"])
            elif o["l"] == "entry" and len(open_calls) > 1:
                seen_overlap = True
        overlapping += seen_overlap
    R.coverage["input_distribution"] = {"kinds": kinds, "concurrent_histories_with_entries_processed_while_several_calls_were_open": overlapping, "labels_total": nlabels, "labels": lab_kinds, "calls_by_duty_type": types,
                                        "calls_by_deadliner_status": stat, "returned_errors": errs, "internal_calls": internal,
                                        "threshold_deliveries": deliveries, "entries_with_failing_subcommittee_index": ebad,
                                        "histories_with_concurrent_callers": kinds.get("conc", 0)}
    R.add_samples([{"t": h["t"], "script": h["script"][:6], "labels": h["labels"][:14]} for h in hs if h.get("nontrivial") and h["kind"] in ("multi", "conc")][:2])
    byid = {h["id"]: h for h in hs}
    for h in hs:
        if h.get("flags"):
            R.broke("correspondence:harness anomaly in history %d (%s): %s" % (h["id"], h["kind"], "; ".join(h["flags"][:3])),
                    json.dumps(replay_obj(h)))
    n_evicting = n_status_bad = 0
    shards = list(vp.chunks(hs, 125))
    with concurrent.futures.ThreadPoolExecutor(max_workers=min(12, max(1, (os.cpu_count() or 4) - 2))) as ex:
        results = list(ex.map(lambda a: vp.coq_eval("C07_%d" % a[0], cases_v(a[1])), enumerate(shards)))
    for shard, (rc, out) in zip(shards, results):
        if rc != 0:
            R.broke("correspondence:cases_C07 does not compile", out[-3000:])
            continue
        rej = pairs(vp.parse_marked(out, "rejects"))
        vbad = pairs(vp.parse_marked(out, "verdict_bad"))
        hits = pairs(vp.parse_marked(out, "monitor_hits"))
        sbad = {c for c, _ in pairs(vp.parse_marked(out, "status_bad"))}
        evi = {c for c, _ in pairs(vp.parse_marked(out, "evicting"))}
        n_evicting += len(evi)
        n_status_bad += len(sbad)
        reported = set()
        for cid, idx in hits:
            h = byid[cid]
            if cid in sbad:
                continue       # deadliner answered against the duty type: outside the contract, inclusion only
            if cid in evi:
                continue       # handled by the duplicate-delivery detector below
            key, what = classify(h, idx)
            R.violation(key, "%s; monitor fails at label %d (%s)" % (what, idx, h["labels"][idx] if idx < len(h["labels"]) else "?"),
                        replay_obj(h, idx))
            reported.add(cid)
        for h in shard:
            if h["id"] in sbad or h["id"] in reported:
                continue
            dd = duplicate_delivery(h)
            if dd is not None:
                key = "F1c:exempt-evict-refire" if h["id"] in evi else "F1a:refire-after-threshold"
                R.violation(key, "the threshold subscribers were called twice for the same (duty, validator, root) %s without a trim in between (label %d)" % (dd[1], dd[0]),
                            replay_obj(h, dd[0]))
                reported.add(h["id"])
        for cid, idx in vbad:
            if cid in reported:
                continue
            h = byid[cid]
            R.broke("correspondence:store verdict (appended vs. same-share comparison) observed in trace %d (%s) at label %d (%s) differs from the model" % (cid, h["kind"], idx, h["labels"][idx] if idx < len(h["labels"]) else "?"),
                    json.dumps(replay_obj(h, idx)))
            reported.add(cid)
        for cid, idx in rej:
            if cid in reported:
                continue
            h = byid[cid]
            R.broke("correspondence:ParSigDB model rejects observed trace %d (%s) at label %d (%s)" % (cid, h["kind"], idx, h["labels"][idx] if idx < len(h["labels"]) else "?"),
                    json.dumps(replay_obj(h, idx)))
    R.coverage["traces_validated_against_impl"] = len(hs)
    R.coverage["input_distribution"]["histories_with_eviction"] = n_evicting
    R.coverage["input_distribution"]["histories_outside_deadliner_contract"] = n_status_bad
    R.finish()
