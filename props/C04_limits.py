"""Stand-alone run of the verifyMsgLimits part of C04 (props/c04_limits.py) under the scratch id
C04_limits:  ./check C04_limits [--tier quick|thorough] [--replay file].  The id is not in the
manifest; the C04 check calls c04_limits.run(R) itself."""
import vp
import c04_limits


def main():
    R = vp.Result("C04_limits")
    c04_limits.run(R)
    R.finish()
