"""C04 termination / never-unjust (partial): theorems in coq/Properties/C04.v (single-process producer/verifier agreement
on justifications, all label sequences); correspondence = trace inclusion of recorded label sequences of the real
core/qbft.Run; monitors on observed honest cluster executions: LogUnjust never fires for a message some process
broadcast (with the justification it was broadcast with), and in timely schedules with at most f crashed/never-started
members every running process decides (exploration on the real code, not a theorem)."""
import vp
import qbft_engine as qe


def main():
    R = vp.Result("C04")
    R.assumptions = [
        "PARTIAL: good_round_decides (termination) is NOT proved; honest_never_unjust is proved at network level for no Byzantine members and no Compare failures, without the verifyMsgLimits clause; the rotation bound is proved",
        "termination is only OBSERVED: cluster-timely schedules of the real qbft.Run (n = 1..7, at most f members crashed possibly mid-broadcast or never started, inputs present, all messages delivered in random order before any timer fires, all running undecided members time out together when the network is quiet) must end with every running member deciding within n+3 timeout waves; the bridge from real time to this schedule is not modelled",
        "the never-unjust monitor is evaluated on executions in which every process is a real honest qbft.Run and Compare never fails (with scripted Compare failures the statement is false by design: cluster-cmpmix executions are excluded)",
    ]
    R.proofs(extra_targets=["Qbft/Corr.v"])
    n = 8000 if R.thorough else 500
    res = qe.run(R, n)
    qe.coverage(R, res)
    qe.report_common(R, res, "C04")
    for cid, pid, gi in res["c04u"]:
        h = res["byid"][cid]
        if not (h["kind"] in ("cluster-random", "cluster-timely")) or h.get("cmpmix"):
            continue
        R.violation("unjust:honest-message", "process %d of history %d (%s, n=%d) logged an honest broadcast as unjust at global step %d: %s" % (
            pid, cid, h["kind"], h["nodes"], gi, h["trace"][gi][:300]), qe.replay_obj(h, gi))
    for cid, pid in res["c04d"]:
        h = res["byid"][cid]
        R.violation("termination:timely-undecided", "process %d of timely history %d (n=%d, expected deciders %s) never decided" % (
            pid, cid, h["nodes"], h.get("expect")), qe.replay_obj(h))
    timely = [h for h in res["hs"] if h["kind"] == "cluster-timely"]
    R.coverage["monitor"] = ("C04: no LogUnjust for honest broadcasts (cluster-random + cluster-timely: %d executions); every running member decides in timely schedules (%d executions, %d timeout waves in total)"
                             % (sum(1 for h in res["hs"] if h["kind"] in ("cluster-random", "cluster-timely")), len(timely),
                                sum((h.get("stats") or {}).get("timely:timeout-waves", 0) for h in timely)))
    # round-timer part of C04 (core/consensus/timer), built separately: props/c04_timer.py
    try:
        import c04_timer
    except ImportError:
        c04_timer = None
        R.notes.append("round-timer part (props/c04_timer.py) not present in this tree")
    if c04_timer is not None:
        c04_timer.run(R)
    # termination part of C04 at model level (good_round_decides), built separately: props/c04_live.py
    try:
        import c04_live
    except ImportError:
        c04_live = None
        R.notes.append("termination part (props/c04_live.py) not present in this tree")
    if c04_live is not None:
        c04_live.run(R)
    # verifyMsgLimits clause of honest_never_unjust, built separately: props/c04_limits.py
    try:
        import c04_limits
    except ImportError:
        c04_limits = None
    if c04_limits is not None:
        c04_limits.run(R)
    R.finish()
