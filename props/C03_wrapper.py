"""Standalone run of the wrapper-lifecycle part of C03 (scratch id C03_wrapper)."""
import json
import os

import vp
import c03_wrapper


def main():
    orig = vp.known_findings

    def kf():
        fs = list(orig())
        p = os.environ.get("VERIF_KNOWN_EXTRA")
        if p and os.path.exists(p):
            fs += json.load(open(p)).get("findings", [])
        return fs + [dict(f, property="C03_wrapper") for f in fs if f.get("property") == "C03"]
    vp.known_findings = kf
    R = vp.Result("C03_wrapper")
    c03_wrapper.run(R)
    R.coverage["rule"] = (R.coverage.get("wrapper") or {}).get("rule", "")
    R.finish()
