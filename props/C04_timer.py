"""Stand-alone run of the round-timer part of C04 (props/c04_timer.py) under the scratch id
C04_timer:  ./check C04_timer [--tier quick|thorough] [--replay file].  The id is not in the
manifest; the C04 check calls c04_timer.run(R) itself."""
import vp
import c04_timer


def main():
    R = vp.Result("C04_timer")
    c04_timer.run(R)
    R.finish()
