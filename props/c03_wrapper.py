"""Wrapper-lifecycle part of C03 (and the C05 clause "messages for expired duties are rejected"): four REAL Consensus
components in one process driven through Participate / Propose / handle over the life of several duties (in-package overlay
harness harness/overlay/core_consensus_qbft/zz_verif_wrapper_test.go, TestVerifWrapper; the libp2p host is a stub with
in-memory streams, everything else -- Broadcast, p2p.Sender, handle, runInstance, qbft.Run -- is the real code).
Monitor on the real runs: per component and duty the subscribers are called at most once, never with an empty value, only
with a value some member proposed; nothing is accepted/delivered after expiry.  Theorems: coq/Properties/C03_wrapper.v about the
instance-lifecycle model coq/Flow/InstanceLife.v; the recorded lifecycle label sequences must be runs of it.

run(R) is called by props/C03.py with the vp.Result of the C03 check (it does not call R.finish());
props/C03_wrapper.py runs it alone under the scratch id C03_wrapper."""
import json
import os
import re

import vp

OVDIR = os.path.join(vp.HARNESS, "overlay", "core_consensus_qbft")
OVFILES = ["zz_verif_test.go", "zz_verif_mut_test.go", "zz_verif_gen_test.go", "zz_verif_decide_test.go", "zz_verif_wrapper_test.go"]


def cases_v(life):
    rows = ["(%d%%nat, [%s])" % (i, "; ".join(h["labels"])) for i, h in enumerate(life)]
    return """From Coq Require Import List Bool Arith.
From Charon Require Import Flow.InstanceLife.
Import ListNotations.
Definition traces : list (nat * list llabel) := [
%s
].
Definition rejects := Eval vm_compute in
  flat_map (fun t => match lfirst_reject linit (snd t) 0 with Some i => [(fst t, i)] | None => [] end) traces.
Definition monitor_hits := Eval vm_compute in
  flat_map (fun t => if lmonitor (snd t) then [] else [(fst t, decides (snd t))]) traces.
Print rejects.
Print monitor_hits.
""" % ";\n".join(rows)


def pairs(term):
    return [(int(a), int(b)) for a, b in re.findall(r"\((\d+)(?:%nat)?,\s*(\d+)(?:%nat)?\)", term or "")]


def run(R):
    cov = R.coverage
    R.assumptions += [
        "wrapper: the libp2p host is replaced by a stub whose streams are in-memory (Broadcast -> p2p.Sender.SendAsync -> p2p.Send are the real code; frames are decoded and given to the addressee's real handle); "
        "Consensus.Start is not called: its deadliner goroutine is emulated by calling deleteInstanceIO on expiry, the deadliner is scripted",
        "wrapper: scenarios are scripted (decide then replayed DECIDED / COMMIT quorum / PRE-PREPARE then late Propose or Participate; Propose twice; Participate after Propose; messages before/after the local start; "
        "expiry then late messages and late Propose; two duties interleaved); goroutine interleavings inside a scenario are those of one synctest run",
    ]
    prev = {k: cov.get(k) for k in ("theorems", "checker_cmd", "coqchk")}
    R.proofs(pid="C03_wrapper")
    cov["wrapper_theorems"] = cov.get("theorems") or []
    cov["theorems"] = (prev["theorems"] or []) + [t for t in cov["wrapper_theorems"] if t not in (prev["theorems"] or [])]
    if prev["checker_cmd"] and prev["checker_cmd"] != cov.get("checker_cmd"):
        cov["checker_cmd"] = prev["checker_cmd"] + "; " + cov.get("checker_cmd", "")
    if "coqchk" in cov and prev["coqchk"] and prev["coqchk"] != cov["coqchk"]:
        cov["wrapper_coqchk"] = cov["coqchk"]
        cov["coqchk"] = prev["coqchk"]
    files = {f: os.path.join(OVDIR, f) for f in OVFILES}
    outdir = os.path.join(vp.WORK, "ov_wrapper_%s_%s" % (R.pid, vp.hashlib.sha256(vp.REPO.encode()).hexdigest()[:6]))
    rc, log, od = vp.go_overlay_test("core/consensus/qbft", files, run="TestVerifWrapper$", env_extra={"VERIF_TIER": R.tier, "VERIF_REPLAY": "", "VERIF_ONLY_TRACE": ""},
                                     outdir=outdir, timeout=600)
    if rc != 0:
        R.broke("correspondence:overlay harness TestVerifWrapper failed to run", log[-3000:])
        return
    o = json.load(open(os.path.join(od, "wrapper.json")))
    life = o.get("life") or []
    how = "./check C03_wrapper re-runs the scripted scenarios of TestVerifWrapper (deterministic) against /repo"
    for v in o.get("violations") or []:
        lab = next((h["labels"] for h in life if h["scenario"] == v.get("scenario") and h["node"] == v.get("node") and h["duty"] == v.get("duty")), None)
        R.violation(v["key"], v["what"], dict(v, seed=o.get("seed"), lifecycle_labels=lab, how=how,
                                              calls=[c for c in o.get("calls") or [] if c["scenario"] == v.get("scenario")]))
    for p in o.get("problems") or []:
        R.broke("correspondence:wrapper harness: " + p, "")
    flagged = {(v.get("scenario"), v.get("node"), v.get("duty")) for v in o.get("violations") or []}
    rc, cout = vp.coq_eval("C03_wrapper" + ("" if vp.REPO == "/repo" else "s"), cases_v(life))
    if rc != 0:
        R.broke("correspondence:cases_C03_wrapper does not compile", cout[-3000:])
    else:
        for i, n in pairs(vp.parse_marked(cout, "monitor_hits")):
            h = life[i]
            if (h["scenario"], h["node"], h["duty"]) not in flagged:
                R.violation("wrapper:lifecycle-monitor", "scenario %r: lifecycle of duty %s at component %d violates the monitor (%d decisions): %s" % (
                    h["scenario"], h["duty"], h["node"], n, " ".join(h["labels"])), dict(h, how=how))
                flagged.add((h["scenario"], h["node"], h["duty"]))
        for i, idx in pairs(vp.parse_marked(cout, "rejects")):
            h = life[i]
            if (h["scenario"], h["node"], h["duty"]) in flagged:
                continue
            R.broke("correspondence:InstanceLife model rejects the lifecycle of duty %s at component %d in scenario %r at label %d (%s)" % (
                h["duty"], h["node"], h["scenario"], idx, h["labels"][idx] if idx < len(h["labels"]) else "?"), json.dumps(h))
    nlab = sum(len(h["labels"]) for h in life)
    shapes = {re.sub(r"(LHandle true ?)+", "H+ ", " ".join(h["labels"])) for h in life}
    cov["evaluations"] += nlab
    cov["distinct_nontrivial"] += len(shapes)
    cov["wrapper"] = {"scenarios": o.get("scenarios"), "calls": (o.get("stats") or {}).get("calls"), "deliveries": (o.get("stats") or {}).get("deliveries"),
                      "lifecycles": len(life), "labels": nlab, "distinct_lifecycle_shapes": len(shapes), "decisions": o.get("decisions"),
                      "rule": "one evaluation = one lifecycle label (start outcome, accepted/refused message, decision, expiry) of one (component, duty); distinct by label sequence with runs of accepted messages collapsed"}
