"""C05 -> C02 bridge: theorems in coq/Properties/C05_bridge.v
  receiving side  coq/Flow/WireToNet.v   every message the model of Consensus.handle accepts abstracts to a Qbft.Model.msg
                                         satisfying the deliverability premise of coq/Qbft/Net.v
  sending side    coq/Flow/WireSend.v    transport.Broadcast -> createMsg -> signMsg, ProcessReceives as an LTS
                  coq/Flow/WireCompose.v the former premise honest_signs_only_broadcasts derived from the composed system
Correspondence of the sending side: the in-package overlay harness zz_verif_send_test.go (TestVerifSend) records, per call
of the Broadcast callback given to the real qbft.Run (scripted single node + 4-node in-process consensus), the arguments, what
was drained from the value channel and the wire message produced (or the error), and every ProcessReceives hand-over; Coq
checks trace inclusion in WireSend (coq/Flow/WireSendCorr.v).  A scan of the package source checks that the private key
reaches only signMsg <- createMsg <- transport.Broadcast.

run(R) is called by props/C05.py (and may be called by props/C02.py) with the vp.Result of that check; it does not call
R.finish().  props/C05_bridge.py runs it alone."""
import glob
import json
import os
import re

import vp

OVDIR = os.path.join(vp.HARNESS, "overlay", "core_consensus_qbft")
OVFILES = ["zz_verif_test.go", "zz_verif_mut_test.go", "zz_verif_gen_test.go", "zz_verif_decide_test.go", "zz_verif_send_test.go"]


def source_scan():
    """The node's key signs only in signMsg, signMsg is called only by createMsg, createMsg only by transport.Broadcast,
    and the key field is only handed to newTransport / createMsg.  Returns a list of deviations."""
    bad = []
    funcs = []   # (file, function header, body)
    for p in sorted(glob.glob(os.path.join(vp.REPO, "core", "consensus", "qbft", "*.go"))):
        if p.endswith("_test.go"):
            continue
        src = re.sub(r"//[^\n]*", "", open(p).read())
        parts = re.split(r"(?m)^func ", src)
        for part in parts[1:]:
            head = part.split("{", 1)[0]
            funcs.append((os.path.basename(p), head.strip(), part))

    def sites(pattern, skip_def=None):
        out = []
        for f, head, body in funcs:
            b = body[len(head):] if skip_def and re.match(skip_def, head) else body
            n = len(re.findall(pattern, b if not (skip_def and re.match(skip_def, head)) else b))
            if n:
                out.append((f, head.split("(")[0] if not head.startswith("(") else head, n))
        return out
    sign = sites(r"k1util\.Sign\(")
    if [(f, n) for f, h, n in sign] != [("msg.go", 1)] or not sign[0][1].startswith("signMsg"):
        bad.append("k1util.Sign call sites: %s (expected exactly one, in signMsg)" % sign)
    sm = sites(r"\bsignMsg\(", skip_def=r"signMsg\(")
    if len(sm) != 1 or sm[0][2] != 1 or not sm[0][1].startswith("createMsg"):
        bad.append("signMsg call sites: %s (expected exactly one, in createMsg)" % sm)
    cm = sites(r"\bcreateMsg\(", skip_def=r"createMsg\(")
    if len(cm) != 1 or cm[0][2] != 1 or "Broadcast" not in cm[0][1] or "transport" not in cm[0][1]:
        bad.append("createMsg call sites: %s (expected exactly one, in (*transport).Broadcast)" % cm)
    ck = sites(r"\bc\.privkey\b")
    if len(ck) != 1 or ck[0][2] != 1 or "runInstance" not in ck[0][1]:
        bad.append("uses of Consensus.privkey: %s (expected exactly one: newTransport(...) in runInstance)" % ck)
    tk = sites(r"\bt\.privkey\b")
    if len(tk) != 1 or tk[0][2] != 1 or "Broadcast" not in tk[0][1]:
        bad.append("uses of transport.privkey: %s (expected exactly one: the createMsg call in Broadcast)" % tk)
    for f, head, body in funcs:
        if re.search(r"\bprivkey\b", body) and not re.search(r"signMsg|createMsg|newTransport|Broadcast|runInstance|NewConsensus", head):
            bad.append("function %s in %s mentions privkey" % (head[:60], f))
    return bad


def cases_v(out, traces):
    text = "\n".join(l for t in traces for l in t["labels"])
    need_p = sorted({int(x) for x in re.findall(r"\bp(\d+)\b", text)})
    ptext = "\n".join(out["parts"][i] for i in need_p)
    need_c = sorted({int(x) for x in re.findall(r"\bc(\d+)\b", ptext)})
    defs = ["Definition c%d := %s." % (i, out["contents"][i]) for i in need_c]
    defs += ["Definition p%d := %s." % (i, out["parts"][i]) for i in need_p]
    rows = ["(%d%%nat, %d%%N, [%s])" % (t["id"], t["key"], ";\n  ".join(t["labels"])) for t in traces]
    return """From Coq Require Import List ZArith NArith Bool.
From Charon Require Import Flow.WireMsg Flow.WireMsgCorr Flow.WireSend Flow.WireSendCorr.
Import ListNotations.
Definition dt : dtab := [%s].
Definition ht : htab := [%s].
%s
Definition SRx := SR dt ht.
Definition traces : list (nat * N * list cslabel) := [
%s
].
Definition rejects := Eval vm_compute in
  flat_map (fun t => match c_sfirst_reject (sinit N N N (snd (fst t))) (snd t) 0 with Some (i, _) => [(fst (fst t), i)] | None => [] end) traces.
Definition reject_info := Eval vm_compute in
  flat_map (fun t => match c_sfirst_reject (sinit N N N (snd (fst t))) (snd t) 0 with Some x => [(fst (fst t), x)] | None => [] end) traces.
Print rejects.
Print reject_info.
""" % ("; ".join(out.get("dtab") or []), "; ".join(out.get("htab") or []), "\n".join(defs), ";\n".join(rows))


def run(R):
    cov = R.coverage
    R.assumptions += [
        "bridge: abstraction wire content -> Qbft.Model.bmsg keeps type, source, round, value hash, prepared round, prepared value hash (hashes as N, nil/zero hash = 0); "
        "drops duty (fixed per instance; every accepted part carries the duty of the main part), signature, attached values, unknown proto fields",
        "bridge: the sending-side premise (whatever an honest member signed for the duty abstracts to an element of Net.v's sent list) is DERIVED (C05_bridge_honest_signs_only_broadcasts) from "
        "node_ok: every honest member runs the transport model WireSend on top of its qbft.Run, every Broadcast call of instance d being a Bcast output of that member in the global trace and carrying the instance's duty",
        "bridge, by inspection but checked mechanically on every run: the private key reaches only signMsg <- createMsg <- (*transport).Broadcast (source scan); the transport model matches transport.go and "
        "qbft.Run passes its instance/process unchanged to the callback (trace inclusion of recorded calls); ProcessReceives hands on the very message handle enqueued (pointer identity in the harness)",
        "bridge: one key per member (nodes e = c_n c); symbolic signatures (injective serialisation, collision-free hash, unforgeable for honest members' keys) as explicit premises",
    ]
    prev = {k: cov.get(k) for k in ("theorems", "checker_cmd", "coqchk")}
    ok = R.proofs(pid="C05_bridge")
    cov["bridge_theorems"] = cov.get("theorems") or []
    cov["theorems"] = (prev["theorems"] or []) + [t for t in cov["bridge_theorems"] if t not in (prev["theorems"] or [])]
    if prev["checker_cmd"] and prev["checker_cmd"] != cov.get("checker_cmd"):
        cov["checker_cmd"] = prev["checker_cmd"] + "; " + cov.get("checker_cmd", "")
    if "coqchk" in cov and prev["coqchk"] and prev["coqchk"] != cov["coqchk"]:
        cov["bridge_coqchk"] = cov["coqchk"]
        cov["coqchk"] = prev["coqchk"]
    cov["evaluations"] += 2          # the vm_compute examples (abstraction, transport model)

    dev = source_scan()
    cov["bridge_source_scan"] = "key use confined to signMsg <- createMsg <- (*transport).Broadcast: %s" % ("ok" if not dev else "; ".join(dev))
    for d_ in dev:
        R.broke("bridge:signing is no longer confined to transport.Broadcast: " + d_, "")

    files = {f: os.path.join(OVDIR, f) for f in OVFILES}
    outdir = os.path.join(vp.WORK, "ov_send_%s_%s" % (R.pid, vp.hashlib.sha256(vp.REPO.encode()).hexdigest()[:6]))
    rc, log, od = vp.go_overlay_test("core/consensus/qbft", files, run="TestVerifSend$", env_extra={"VERIF_TIER": R.tier, "VERIF_ONLY_TRACE": "", "VERIF_REPLAY": ""},
                                     outdir=outdir, timeout=600)
    if rc != 0:
        R.broke("correspondence:overlay harness TestVerifSend failed to run", log[-3000:])
        return ok
    out = json.load(open(os.path.join(od, "send.json")))
    traces = out.get("send_traces") or []
    for t in traces:
        t["labels"] = t.get("labels") or []
    traces = [t for t in traces if t["labels"]]
    for p in out.get("problems") or []:
        R.violation("send:" + re.sub(r"[^a-z]+", "-", p.lower())[:60], "sending side of the wrapper: " + p,
                    {"seed": out.get("seed"), "what": p, "how": "./check C05_bridge re-runs TestVerifSend (deterministic script; cluster runs per seed)"})
    rc, cout = vp.coq_eval("C05_send" + ("" if vp.REPO == "/repo" else "s"), cases_v(out, traces))
    if rc != 0:
        R.broke("correspondence:cases_C05_send does not compile", cout[-3000:])
    else:
        info = vp.parse_marked(cout, "reject_info") or ""
        for tid, idx in [(int(a), int(b)) for a, b in re.findall(r"\((\d+)(?:%nat)?,\s*(\d+)(?:%nat)?\)", vp.parse_marked(cout, "rejects") or "")]:
            t = next(t for t in traces if t["id"] == tid)
            lab = t["labels"][idx] if idx < len(t["labels"]) else "?"
            R.violation("send:transport-model-mismatch", "the real transport.Broadcast/ProcessReceives did something the model Flow/WireSend.v does not allow (%s trace %d, label %d): %s" % (t["kind"], tid, idx, lab[:300]),
                        {"seed": out.get("seed"), "trace": tid, "index": idx, "label": lab, "model": info[-1500:], "labels_before": t["labels"][max(0, idx - 5):idx]})
    labels = [l for t in traces for l in t["labels"]]
    shapes = set()
    for l in labels:
        m = re.match(r"SB \(BA (\S+) \(D \d+ \S+\) \S+ \S+ (\d+) \S+ (\d+) \[([^\]]*)\]\) (\S+).*? (None|\(Some \(W .*)$", l)
        if m:
            nvals = len(re.findall(r"\(V ", m.group(6).rsplit("[", 1)[-1])) if m.group(6) != "None" else -1
            shapes.add((m.group(1), m.group(2) != "0", m.group(3) != "0", len([x for x in m.group(4).split(";") if x.strip()]), m.group(5) != "None", nvals))
    cov["evaluations"] += len(labels)
    cov["distinct_nontrivial"] += len(shapes)
    cov["bridge_send"] = {"traces": len(traces), "labels": len(labels), "checks": out.get("checks"), "problems": out.get("problems") or [],
                          "distinct_broadcast_shapes": len(shapes),
                          "rule": "one evaluation = one Broadcast callback call or one ProcessReceives hand-over of the real transport; distinct by (message type, value hash set, prepared hash set, "
                                  "number of justifications, value channel drained, number of values attached / error)"}
    return ok
