"""C05 -> C02 bridge: theorems in coq/Properties/C05_bridge.v (coq/Flow/WireToNet.v): every message
the model of Consensus.handle accepts abstracts to a Qbft.Model.msg that satisfies the deliverability
premise of the network semantics coq/Qbft/Net.v.  Proof only (no harness of its own: the model of
handle is tied to the code by props/C05.py, the network semantics by props/C02.py).

run(R) is called by props/C05.py (and may be called by props/C02.py) with the vp.Result of that
check; it does not call R.finish().  props/C05_bridge.py runs it alone."""
import vp


def run(R):
    cov = R.coverage
    R.assumptions += [
        "bridge: abstraction wire content -> Qbft.Model.bmsg keeps type, source, round, value hash, prepared round, prepared value hash (hashes as N, nil/zero hash = 0); "
        "drops duty (fixed per instance; every accepted part carries the duty of the main part), signature, attached values, unknown proto fields",
        "bridge: premise honest_signs_only_broadcasts (whatever an honest member signed for the duty abstracts to an element of Net.v's sent list) is assumed, not proved: "
        "it is a statement about the sending side (transport.Broadcast/createMsg is the only signer) and about identifying Net.v's sent with real time",
        "bridge: one key per member (nodes e = c_n c); symbolic signatures (injective serialisation, collision-free hash, unforgeable for honest members' keys) as explicit premises",
    ]
    prev = {k: cov.get(k) for k in ("theorems", "checker_cmd", "coqchk")}
    ok = R.proofs(pid="C05_bridge")
    cov["bridge_theorems"] = cov.get("theorems") or []
    cov["theorems"] = (prev["theorems"] or []) + [t for t in cov["bridge_theorems"] if t not in (prev["theorems"] or [])]
    if prev["checker_cmd"] and prev["checker_cmd"] != cov.get("checker_cmd"):
        cov["checker_cmd"] = prev["checker_cmd"] + "; " + cov.get("checker_cmd", "")
    if "coqchk" in cov and prev["coqchk"] and prev["coqchk"] != cov["coqchk"]:
        cov["bridge_coqchk"] = cov["coqchk"]
        cov["coqchk"] = prev["coqchk"]
    cov["evaluations"] += 1          # the vm_compute abstraction example (C05_bridge_abstraction_example)
    return ok
