"""C20 duties cache: theorems in coq/Properties/C20.v; correspondence = trace inclusion of the label
sequences recorded from app/eth2wrap/cache.go (DutiesCache) in the model coq/Flow/Cache.v, plus the two
trace monitors (answers / fresh-after-invalidation) and a direct aliasing probe of returned objects."""
import concurrent.futures
import json
import os
import re

import vp


def nat_list(l):
    return "[" + "; ".join(str(x) for x in l) + "]"


def cases_v(hs):
    rows = []
    for h in hs:
        rows.append("(%d%%nat, ((%d, %d), (%s, [%s])))" % (h["id"], h["seed"], h["nv"], nat_list(h["active0"]), "; ".join(h["labels"])))
    return """From Coq Require Import List NArith Bool.
From Charon Require Import Flow.Cache.
Import ListNotations.
Local Open Scope N_scope.
Definition cases : list (nat * ((N * N) * (list N * list label))) := [
%s
].
Definition ev {A} (f : (kind -> N -> nat -> list duty) -> (kind -> N -> nat -> N) -> list N -> list label -> option A)
  : list (nat * A) :=
  flat_map (fun c => let '(id, ((seed, nv), (act, ls))) := c in
                     match f (hasg seed nv) (hmeta seed) act ls with Some i => [(id, i)] | None => [] end) cases.
Definition rejects := Eval vm_compute in
  ev (fun a m act ls => first_reject a m true (init_with act) ls 0).
Definition ans_hits := Eval vm_compute in
  ev (fun a m act ls => if sets_only_from act ls then first_violation_ans a m (ginit_with act) ls 0 else None).
Definition fresh_hits := Eval vm_compute in
  ev (fun a m act ls => first_violation_fresh (finit_with act) ls 0).
Definition not_sets := Eval vm_compute in
  ev (fun a m act ls => if sets_only_from act ls then None else Some 0%%nat).
Definition dup_hits := Eval vm_compute in
  ev (fun a m act ls => if sets_only_from act ls then None else first_violation_ans a m (ginit_with act) ls 0).
Print rejects.
Print dup_hits.
Print ans_hits.
Print fresh_hits.
Print not_sets.
""" % ";\n".join(rows)


def pairs(term):
    return [(int(a), int(b)) for a, b in re.findall(r"\((\d+)%?n?a?t?, (\d+)%?n?a?t?\)", term or "")]


def lab(h, idx):
    return h["labels"][idx] if idx < len(h["labels"]) else "?"


def kind_of_call(h, idx):
    """duty kind of the call whose LReturn is label idx"""
    m = re.match(r"LReturn (\d+)%nat", lab(h, idx))
    if m:
        for l in h["labels"][:idx][::-1]:
            m2 = re.match(r"LLookup %s%%nat (\w+) " % m.group(1), l)
            if m2:
                return m2.group(1)
    return None


def replay_of(h, idx=None):
    r = {"seed": h["seed"], "nv": h["nv"], "active0": h["active0"], "outsider": h.get("outsider", False), "script": h["script"], "labels": h["labels"],
         "how": "./check C20 --replay <this file> re-runs the script against /repo"}
    if idx is not None:
        r["index"] = idx
    return r


def main():
    R = vp.Result("C20")
    R.assumptions = [
        "the beacon node answers per validator: its answer for an index list is the epoch's duty assignment filtered by membership in the list (an index named twice does not repeat duties); the assignment and the metadata are arbitrary functions of (duty kind, epoch, epoch generation)",
        "a reorg back to epoch e changes duties of epochs > e only (the contract of InvalidateCache's parameter); epoch generation of an epoch = number of such reorgs so far",
        "requests are explicit index SETS (no index twice; an empty list means the active set, which then must be duplicate-free): the answer theorems carry this hypothesis; requests naming an index twice are only checked for model correspondence (reading note N3)",
        "the three Go maps duties/metadata/requestedIdxs of a duty kind are modelled as one map epoch -> entry (they are only written together under the lock); reading activeValIdxs and the cache read are one atomic label (UpdateActiveValIndices commutes with the cache read)",
        "harness histories can interleave other operations only while a call waits inside its beacon-node request (lookup | beacon request | beacon answer | store are separated; store and return are not); the theorems cover every interleaving of the atomic steps",
        "consumer layer (validatorapi.Component): not modelled in Coq; the harness compares its answer (multiset of duties after undoing the root-key -> public-share substitution, metadata for proposer/attester) with what the duties cache handed to it, which the model and monitors tie to the beacon node. Unchanged code mirrored: proposer duties of validators unknown to the cluster pass through with the root key, attester/sync duties of an unknown validator fail the request, sync metadata is not forwarded. The scheduler's consumption is covered by C15",
        "not modelled: metrics, logging, the nil-duty error branch, context cancellation",
    ]
    R.proofs()
    # application wiring (app/app.go), regenerated from the source on every run: translator/appwire -> coq/gen/AppWiring.v
    rc_t, out_t = vp.run_translator("appwire", "AppWiring.v")
    R.coverage["translator_appwire"] = out_t.strip().splitlines()[-1] if out_t.strip() else "rc=%d" % rc_t
    if rc_t != 0:
        R.broke("translator:appwire failed on %s/app/app.go (a construction shape it can not interpret; obligation C20_app_cache_invalidated_on_reorg)" % vp.REPO, out_t[-3000:])
    vp.sub_proofs(R, "C20_app", "app")
    rp = os.environ.get("VERIF_REPLAY", "")
    if rp:
        try:
            reorg_replay = str(json.load(open(rp)).get("key", "")).startswith("reorg:")
        except Exception:
            reorg_replay = False
        if reorg_replay:  # a replay of the reorg side: only that part runs
            import sse_reorg
            sse_reorg.run(R)
            R.finish()
    n = 10000 if R.thorough else 400
    rc, out, od = vp.go_harness("cache", env_extra={"VERIF_N": n})
    if rc != 0:
        R.broke("correspondence:harness cache failed to run", out[-3000:])
        R.finish()
    hs = json.load(open(os.path.join(od, "cache_traces.json")))
    R.coverage["evaluations"] = len(hs)
    seen = set()
    for h in hs:
        if h.get("nontrivial"):
            seen.add(vp.digest(h["labels"]))
    R.coverage["distinct_nontrivial"] = len(seen)
    R.coverage["rule"] = ("histories of calls (explicit subsets, single validators, all, empty = active set; repeats; three duty kinds; several epochs; about a third of the calls made by a validator client "
                          "through validatorapi.Component ProposerDuties/AttesterDuties/SyncCommitteeDuties wired in front of the same cache, whose answer must equal, after undoing the pubkey-share substitution, "
                          "what the cache handed to it -- the labels carry the cache-level answer), reorgs, "
                          "InvalidateCache (prompt, delayed, spurious), Trim, UpdateActiveValIndices, caller-side mutation of received answers, callers that keep ONE index buffer with spare capacity "
                          "across calls and rewrite it in place between calls (the request seen by the model is the buffer content at call time), and aliasing probes of outputs and of the request slice against "
                          "eth2wrap.NewDutiesCache with a scripted beacon client in a synctest bubble (kinds: corpus-*, seq = no overlap, conc = calls held inside the beacon request "
                          "while other operations run, dup = requests naming an index twice); every history ends with a read-out of all validators per kind and epoch; "
                          "non-trivial = at least one full cache hit, one partial hit (amend path) and one invalidation or trim; distinct by hash of the observed label sequence")
    kinds, nlabels, lk = {}, 0, {}
    for h in hs:
        kinds[h["kind"]] = kinds.get(h["kind"], 0) + 1
        nlabels += len(h["labels"])
        for l in h["labels"]:
            t = l.split(" ", 1)[0]
            lk[t] = lk.get(t, 0) + 1
    R.coverage["input_distribution"] = {
        "kinds": kinds, "labels_total": nlabels, "label_kinds": lk,
        "lookups": {"hit": sum(h["hits"] for h in hs), "partial": sum(h["partials"] for h in hs), "miss": sum(h["misses"] for h in hs)},
        "stores_refused": sum(h["refused"] for h in hs),
        "histories_with_overlap": sum(1 for h in hs if h.get("overlap")),
        "alias_probes": sum(sum(1 for o in h["script"] if o["op"] == "probe") for h in hs),
        "calls_through_validatorapi_component": sum(h.get("vapi_calls", 0) for h in hs),
        "histories_with_a_validator_outside_the_cluster": sum(1 for h in hs if h.get("outsider")),
        "request_buffer_probes": sum(sum(1 for o in h["script"] if o["op"] == "bufprobe") for h in hs),
        "calls_through_a_reused_caller_buffer": sum(sum(1 for o in h["script"] if o["op"] == "call" and o.get("b")) for h in hs),
    }
    R.add_samples([{"script": h["script"], "labels": h["labels"]} for h in hs if h.get("nontrivial") and len(h["labels"]) < 60][:2])

    # one concrete violation per key (the smallest history exhibiting it), monitor findings first
    found = {}

    def violation(key, what, h, idx=None):
        if key not in found or len(h["labels"]) < found[key][2]:
            found[key] = (what, replay_of(h, idx), len(h["labels"]))
        counts[key] = counts.get(key, 0) + 1
    counts = {}

    # direct observations of the harness
    for h in hs:
        for a in h.get("alias") or []:
            kind = a.split(":", 1)[0]
            if kind.startswith("request-slice"):
                violation("alias:cache:%s" % kind, "the cache's record of requested indices lives in a caller's index slice: the caller reusing its own buffer changes later answers (%s)" % a, h)
            else:
                violation("alias:cache:%s" % kind, "a caller's mutation of the answer it received is served to the next caller (%s)" % a, h)
        for a in h.get("consumer") or []:
            kind = a.split(":", 1)[0]
            violation("consumer:validatorapi:%s" % kind, "duties served to a validator client through validatorapi.Component differ from what the duties cache (= the beacon node) answers for the request (%s)" % a, h)
        for e in h.get("errors") or []:
            violation("harness-anomaly", e, h)

    byid = {h["id"]: h for h in hs}
    notsets, ndup, dup_sample = 0, 0, None
    shards = list(vp.chunks(hs, 100))
    with concurrent.futures.ThreadPoolExecutor(max_workers=max(1, min(8, vp.NPROC // 2))) as ex:
        results = list(ex.map(lambda a: vp.coq_eval("C20_%d" % a[0], cases_v(a[1])), enumerate(shards)))
    for shard_i, (rc, out) in enumerate(results):
        if rc != 0:
            R.broke("correspondence:cases_C20 does not compile", out[-3000:])
            continue
        rej = pairs(vp.parse_marked(out, "rejects"))
        ans = pairs(vp.parse_marked(out, "ans_hits"))
        fresh = pairs(vp.parse_marked(out, "fresh_hits"))
        notsets += len(pairs(vp.parse_marked(out, "not_sets")))
        dups = pairs(vp.parse_marked(out, "dup_hits"))
        ndup += len(dups)
        if dups and dup_sample is None:
            dup_sample = {"script": byid[dups[0][0]]["script"], "label": lab(byid[dups[0][0]], dups[0][1])}
        hit_ids = set()
        for cid, idx in fresh:
            h = byid[cid]
            hit_ids.add(cid)
            after_inval = any(l.startswith("LInvalidate") for l in h["labels"][:idx])
            key = "F10:stale-after-invalidate" if after_inval else "trim-not-refetched"
            violation(key, "the first call that looks an epoch up after it was invalidated/trimmed did not ask the beacon node for all its indices (label %d: %s)" % (idx, lab(h, idx)), h, idx)
        for cid, idx in ans:
            h = byid[cid]
            hit_ids.add(cid)
            # stale duties served from the cache after an invalidation: the refetch monitor failed earlier in this history
            stale = any(c2 == cid and i2 < idx and any(l.startswith("LInvalidate") for l in h["labels"][:i2]) for c2, i2 in fresh)
            key = "F10:stale-after-invalidate" if stale else "answer-differs-from-beacon"
            if any(int(x) >= 5000 for x in re.findall(r"\d+", lab(h, idx))):
                # the answer contains values a caller wrote into the answer IT had received (harness ops mutate/probe)
                key = "alias:cache:%s" % {"KProp": "proposer", "KAtt": "attester", "KSync": "sync"}.get(kind_of_call(h, idx), "?")
            violation(key, "an answer is not the beacon node's answer at any epoch generation between the last invalidation before the call and now (label %d: %s)" % (idx, lab(h, idx)), h, idx)
        for cid, idx in rej:
            if cid in hit_ids:
                continue
            h = byid[cid]
            R.broke("correspondence:Cache model rejects observed trace %d at label %d (%s)" % (cid, idx, lab(h, idx)), json.dumps(replay_of(h, idx)))
    order = ["F10:stale-after-invalidate", "answer-differs-from-beacon", "trim-not-refetched"]
    for key in order + sorted(k for k in found if k not in order):
        if key in found:
            what, rp, _ = found[key]
            R.violation(key, "%s [%d occurrence(s) this run]" % (what, counts[key]), rp)
    R.coverage["input_distribution"]["histories_with_repeated_index_requests(monitor A skipped)"] = notsets
    if ndup:
        R.notes.append("reading note N3 (outside the property: requests that are not index sets): in %d histories a request naming an index twice on the amend path "
                       "made the real cache hold that validator's duties twice; the model predicts exactly this (traces accepted); e.g. %s" % (ndup, json.dumps(dup_sample)))
    R.coverage["traces_validated_against_impl"] = len(hs)
    # reorg side: the epoch InvalidateCache is told for a chain_reorg event (app/sse listener): props/sse_reorg.py
    try:
        import sse_reorg
        sse_reorg.run(R)
    except ImportError:
        pass
    R.finish()
