"""C16 deadliner: theorems in coq/Properties/C16.v; correspondence = trace inclusion of the label
sequences recorded from core/deadline.go in the model coq/Stores/Deadliner.v."""
import json
import os
import re

import vp

DL = "(fun d : N => if N.eqb (N.modulo d 4) 3 then None else Some (Z.of_N (N.div d 4)))"


def alternatives(labels):
    """A `RACE <label>` entry was issued while a timer may have been ready: the observed fires that
    follow it (up to the next LQuiet) may have happened before or after it. Returns every ordering."""
    alts = [[]]
    i = 0
    while i < len(labels):
        l = labels[i]
        if l.startswith("RACE "):
            add = l[5:]
            j = i + 1
            fires = []
            while j < len(labels) and (labels[j].startswith("LFire") or labels[j].startswith("LDrop")):
                fires.append(labels[j]); j += 1
            new = []
            for a in alts:
                for k in range(len(fires) + 1):
                    new.append(a + fires[:k] + [add] + fires[k:])
            alts = new[:64]
            i = j
        else:
            for a in alts:
                a.append(l)
            i += 1
    return alts


def cases_v(hs):
    rows = []
    for h in hs:
        alts = alternatives(h["labels"])
        rows.append("(%d%%nat, [%s])" % (h["id"], "; ".join("[" + "; ".join(a) + "]" for a in alts)))
    return """From Coq Require Import List ZArith NArith Bool.
From Charon Require Import Stores.Deadliner.
Import ListNotations.
Local Open Scope N_scope.
Definition dlf := %s.
(* each case: the admissible orderings of one observed history (one, unless an Add raced a ready timer) *)
Definition cases : list (nat * list (list label)) := [
%s
].
Fixpoint all_some (f : list label -> option nat) (alts : list (list label)) : option nat :=
  match alts with
  | [] => None
  | [a] => f a
  | a :: r => match f a with None => None | Some i => match all_some f r with None => None | Some _ => Some i end end
  end.
(* a history is rejected / violates the monitor only if every admissible ordering does *)
Definition rejects := Eval vm_compute in
  flat_map (fun c => match all_some (fun a => first_reject dlf false init a 0) (snd c) with Some i => [(fst c, i)] | None => [] end) cases.
Definition monitor_hits := Eval vm_compute in
  flat_map (fun c => match all_some (fun a => first_violation dlf ginit a 0) (snd c) with Some i => [(fst c, i)] | None => [] end) cases.
Print rejects.
Print monitor_hits.
""" % (DL, ";\n".join(rows))


def pairs(term):
    flat = re.sub(r"\s+", "", term or "")
    return [(int(a), int(b)) for a, b in re.findall(r"\((\d+)(?:%nat)?,(\d+)(?:%nat)?\)", flat)]


def main():
    R = vp.Result("C16")
    R.assumptions = [
        "the deadline function is a fixed function of the duty (as core.NewDutyDeadlineFunc is)",
        "the ~292-year timer armed while no duty is pending is modelled as: nothing fires while nothing is pending (exercised by idle multi-day histories); context cancellation is not modelled",
        "'a consumer that keeps reading' is read as: the 10-slot output queue is never full when a timer fires; the dropping branch is modelled (LDrop) and C16_drop_only_when_full shows it is the only way a report is lost",
        "harness histories are quiescent between operations (synctest.Wait); the theorems also cover non-quiescent interleavings, which the harness cannot produce",
    ]
    R.proofs()
    n = 4000 if R.thorough else 500
    rc, out, od = vp.go_harness("c16", env_extra={"VERIF_N": n})
    if rc != 0:
        R.broke("correspondence:harness c16 failed to run", out[-3000:])
        R.finish()
    hs = json.load(open(os.path.join(od, "c16_traces.json")))
    R.coverage["evaluations"] = len(hs)
    seen = set()
    for h in hs:
        if h.get("nontrivial"):
            seen.add(vp.digest(h["labels"]))
    R.coverage["distinct_nontrivial"] = len(seen)
    R.coverage["rule"] = ("histories of add/advance/read operations against core.NewDeadlinerForT with a fake clock in a synctest bubble "
                          "(kinds: corpus, random, duerace = several duties on one deadline with one re-registered at the deadline instant while the timer is ready, far = deadlines hours away with large clock steps, veryfar = deadlines 1-10 days away and idle periods longer than a day (also with nothing pending at all), race = an Add issued while a timer is ready and unserved (both orders admissible), burst = many duties on one deadline with a late consumer, edge = adds at/around the deadline instant and re-adds after the report); "
                          "non-trivial = at least one report happened and at least one add was refused or repeated; distinct by hash of the observed label sequence")
    kinds = {}
    nlabels = 0
    for h in hs:
        kinds[h["kind"]] = kinds.get(h["kind"], 0) + 1
        nlabels += len(h["labels"])
    R.coverage["input_distribution"] = {"kinds": kinds, "labels_total": nlabels,
                                        "histories_with_drop": sum(1 for h in hs if any(l.startswith("LDrop") for l in h["labels"]))}
    R.add_samples([{"script": h["script"], "labels": h["labels"]} for h in hs if h.get("nontrivial")][:2])
    byid = {h["id"]: h for h in hs}
    # a report of a duty the harness cannot even name (e.g. the zero Duty{}) was never registered: concrete violation
    bad = [h for h in hs if any(re.search(r"^(?:RACE )?L\w+ -\d", l) for l in h["labels"])]
    for h in bad:
        lab = next(l for l in h["labels"] if re.search(r"^(?:RACE )?L\w+ -\d", l))
        R.violation("reported-unregistered", "the deadliner reported a duty that was never registered (%s: not one of the harness's duties, e.g. the zero Duty{})" % lab,
                    {"script": h["script"], "labels": h["labels"], "how": "./check C16 --replay <this file> re-runs the script against /repo"})
    hs = [h for h in hs if h not in bad]
    for shard_i, shard in enumerate(vp.chunks(hs, 1000)):
        rc, out = vp.coq_eval("C16_%d" % shard_i, cases_v(shard))
        if rc != 0:
            R.broke("correspondence:cases_C16 does not compile", out[-3000:])
            continue
        rej = pairs(vp.parse_marked(out, "rejects"))
        hits = pairs(vp.parse_marked(out, "monitor_hits"))
        for cid, idx in hits:
            h = byid[cid]
            labs = alternatives(h["labels"])[0]
            lab = labs[idx] if idx < len(labs) else "?"
            key = "trace-monitor"
            if lab.startswith("LFire") and lab in labs[:idx]:
                key = "F4:reported-twice"
            R.violation(key, "observed trace violates the C16 monitor at label %d (%s)" % (idx, lab),
                        {"script": h["script"], "labels": h["labels"], "index": idx,
                         "how": "./check C16 --replay <this file> re-runs the script against /repo"})
        hit_ids = {c for c, _ in hits}
        for cid, idx in rej:
            if cid in hit_ids:
                continue
            h = byid[cid]
            labs = alternatives(h["labels"])[0]
            R.broke("correspondence:Deadliner model rejects observed trace %d at label %d (%s)" % (cid, idx, labs[idx] if idx < len(labs) else "?"),
                    json.dumps({"script": h["script"], "labels": h["labels"]}))
    R.coverage["traces_validated_against_impl"] = len(hs)
    R.finish()
