"""C16 deadliner: theorems in coq/Properties/C16.v; correspondence = trace inclusion of the label
sequences recorded from core/deadline.go in the model coq/Stores/Deadliner.v."""
import json
import os
import re

import vp

DL = "(fun d : N => if N.eqb (N.modulo d 4) 3 then None else Some (Z.of_N (N.div d 4)))"


def cases_v(hs):
    rows = []
    for h in hs:
        rows.append("(%d%%nat, [%s])" % (h["id"], "; ".join(h["labels"])))
    return """From Coq Require Import List ZArith NArith Bool.
From Charon Require Import Stores.Deadliner.
Import ListNotations.
Local Open Scope N_scope.
Definition dlf := %s.
Definition cases : list (nat * list label) := [
%s
].
Definition rejects := Eval vm_compute in
  flat_map (fun c => match first_reject dlf false init (snd c) 0 with Some i => [(fst c, i)] | None => [] end) cases.
Definition monitor_hits := Eval vm_compute in
  flat_map (fun c => match first_violation dlf ginit (snd c) 0 with Some i => [(fst c, i)] | None => [] end) cases.
Print rejects.
Print monitor_hits.
""" % (DL, ";\n".join(rows))


def pairs(term):
    return [(int(a), int(b)) for a, b in re.findall(r"\((\d+)%?n?a?t?, (\d+)%?n?a?t?\)", term or "")]


def main():
    R = vp.Result("C16")
    R.assumptions = [
        "the deadline function is a fixed function of the duty (as core.NewDutyDeadlineFunc is)",
        "the ~292-year timer armed while no duty is pending and context cancellation are not modelled",
        "'a consumer that keeps reading' is read as: the 10-slot output queue is never full when a timer fires; the dropping branch is modelled (LDrop) and C16_drop_only_when_full shows it is the only way a report is lost",
        "harness histories are quiescent between operations (synctest.Wait); the theorems also cover non-quiescent interleavings, which the harness cannot produce",
    ]
    R.proofs()
    n = 4000 if R.thorough else 500
    rc, out, od = vp.go_harness("c16", env_extra={"VERIF_N": n})
    if rc != 0:
        R.broke("correspondence:harness c16 failed to run", out[-3000:])
        R.finish()
    hs = json.load(open(os.path.join(od, "c16_traces.json")))
    R.coverage["evaluations"] = len(hs)
    seen = set()
    for h in hs:
        if h.get("nontrivial"):
            seen.add(vp.digest(h["labels"]))
    R.coverage["distinct_nontrivial"] = len(seen)
    R.coverage["rule"] = ("histories of add/advance/read operations against core.NewDeadlinerForT with a fake clock in a synctest bubble "
                          "(kinds: corpus, random, burst = many duties on one deadline with a late consumer, edge = adds at/around the deadline instant and re-adds after the report); "
                          "non-trivial = at least one report happened and at least one add was refused or repeated; distinct by hash of the observed label sequence")
    kinds = {}
    nlabels = 0
    for h in hs:
        kinds[h["kind"]] = kinds.get(h["kind"], 0) + 1
        nlabels += len(h["labels"])
    R.coverage["input_distribution"] = {"kinds": kinds, "labels_total": nlabels,
                                        "histories_with_drop": sum(1 for h in hs if any(l.startswith("LDrop") for l in h["labels"]))}
    R.add_samples([{"script": h["script"], "labels": h["labels"]} for h in hs if h.get("nontrivial")][:2])
    byid = {h["id"]: h for h in hs}
    for shard_i, shard in enumerate(vp.chunks(hs, 1000)):
        rc, out = vp.coq_eval("C16_%d" % shard_i, cases_v(shard))
        if rc != 0:
            R.broke("correspondence:cases_C16 does not compile", out[-3000:])
            continue
        rej = pairs(vp.parse_marked(out, "rejects"))
        hits = pairs(vp.parse_marked(out, "monitor_hits"))
        for cid, idx in hits:
            h = byid[cid]
            lab = h["labels"][idx] if idx < len(h["labels"]) else "?"
            key = "trace-monitor"
            if lab.startswith("LFire") and lab in h["labels"][:idx]:
                key = "F4:reported-twice"
            R.violation(key, "observed trace violates the C16 monitor at label %d (%s)" % (idx, lab),
                        {"script": h["script"], "labels": h["labels"], "index": idx,
                         "how": "./check C16 --replay <this file> re-runs the script against /repo"})
        hit_ids = {c for c, _ in hits}
        for cid, idx in rej:
            if cid in hit_ids:
                continue
            h = byid[cid]
            R.broke("correspondence:Deadliner model rejects observed trace %d at label %d (%s)" % (cid, idx, h["labels"][idx] if idx < len(h["labels"]) else "?"),
                    json.dumps({"script": h["script"], "labels": h["labels"]}))
    R.coverage["traces_validated_against_impl"] = len(hs)
    R.finish()
