"""C10 intake of partial signatures: theorems in coq/Properties/C10.v over the decision-rule model
coq/Flow/Gate.v; correspondence = every call of the real validatorapi.Component handlers (secure
mode) and of the real parsigex handler recorded by harness/gate must be a label the model accepts
and must pass the monitor (anything delivered to a subscriber is valid per the rule)."""
import collections
import concurrent.futures
import glob
import json
import os
import re
import shutil

import vp


def cases_v(lock, cs):
    rows = ["(%d%%nat, %s)" % (c["id"], c["label"]) for c in cs]
    return """From Coq Require Import List ZArith NArith Bool.
From Charon Require Import Flow.Gate.
Import ListNotations.
Local Open Scope N_scope.
Definition lock : lockt := %s.
Definition cases : list (nat * label) := [
%s
].
Definition rejects := Eval vm_compute in
  flat_map (fun c => if accepts (snd c) then [] else [fst c]) cases.
Definition monitor_hits := Eval vm_compute in
  flat_map (fun c => if monitor1 (snd c) then [] else [fst c]) cases.
Print rejects.
Print monitor_hits.
""" % (lock, ";\n".join(rows))


def ids(term):
    return [int(a) for a in re.findall(r"(\d+)", term or "")]


SPEC_KEYS = ("id", "entrance", "endpoint", "gen", "class", "items", "duty_type", "slot_add", "duty_slot", "boundary", "fault_at", "fault_kind", "prime", "epoch_set", "at_epoch")


HIST = {}


def spec_of(c):
    d = {k: c[k] for k in SPEC_KEYS if k in c}
    d.update(HIST)   # the components are long-lived: a replay re-runs the history that preceded the case
    return d


def cls(c):
    k = c["class"]
    if k.startswith("field+resign:"):
        return "field+resign"
    if k.startswith("field:"):
        return "field"
    if k.startswith("multi_one_bad"):
        return "multi_one_bad"
    if k.startswith("collision:"):
        return "collision"
    if k.startswith("crowd:"):
        return "crowd"
    if k.startswith("repeated_entry:"):
        return "repeated_entry"
    if k.startswith("fault:"):
        return "fault:" + k.split(":")[1]
    if k.startswith("replayed_signature_altered"):
        return "replayed_signature_altered"
    if k.startswith("gate_slot:"):
        return "gate_slot"
    return k


def main():
    R = vp.Result("C10")
    R.assumptions = [
        "cryptography is symbolic in the model: a signature is accepted for (validator v, share i, signing root rho) iff it is the term GSig v i rho; unforgeability/uniqueness of BLS signatures and the soundness of herumi's check are trusted. The correspondence run compares this rule with the real verifier on every generated case",
        "signing root (domain, fork, epoch, message root) is an injective function of the signed content (hypothesis of C10_alteration_rejected, not an axiom)",
        "the abstract description of a submission (which validator the component resolves it to, signing root of the object as submitted, signature term, proposal-equals-agreed flag, inner-selection-proof flag) is computed by the harness with oracles independent of the code under test: own signing-root computation from the raw eth2 objects, the table of signatures the harness made, its validator tables, and what its environment callbacks (duty definitions, pubkey-by-attestation, validator set) answered",
        "error classes are compared up to 'some signature check failed' (the validator API reports an inner selection-proof failure with the same text as an outer signature failure); every rejection ahead of any signature check (validator/duty lookup, malformed object) is one class EPre",
        "the expected-signature oracle takes domain name and signing epoch from the OBJECT per the consensus spec (attestation: target epoch; exit: exit epoch; registration: genesis domain; others: epoch of the object's slot), never from core/eth2signeddata.go",
        "validatorapi.Component, the parsigex handler, its verifier and the gater are created once and serve every case of the run in order (as in production), so the objects of the default epoch, of both fork boundaries of the beacon mock and back again pass through the same components; a replay re-runs the history that preceded the failing case",
        "env faults: the eth2 client the components verify with is the beacon mock behind a wrapper that can make the k-th Spec/Domain/GenesisDomain/ForkSchedule lookup of a call fail with context.DeadlineExceeded, context.Canceled, a generic error, or hang until the caller's context ends (validator API: the harness cancels the request; parsigex: the handler's receive timeout, shortened on a second instance sharing verifier and gater). The label says whether the fault fired; under a fired fault the model's decision is Reject with any error class",
        "the lock of the harness holds 205 validators: three ordinary ones, a pair found by a seeded, bounded and cached search whose public keys share the 6-hex-digit log abbreviation, and a crowd of 200; one more validator is known to the beacon node only",
        "endpoints not covered: SubmitValidatorRegistrations takes nothing in (checked: it never calls a subscriber); builder registrations are created by charon itself, not submitted by the VC; phase0/altair proposals are refused by the code ('unsupported version') and not generated; the HTTP router/JSON decoding in front of the Component is not driven (C14 covers decoding)",
        "parsigex is driven through the stream handler it registers (p2p.RegisterHandler) on a stub host, not over a libp2p network; the sender identity is not used by the verifier",
        "reflection enumerates leaf fields of the raw eth2 structures, first two (thorough: six) elements of every list; a field whose alteration does not change the signing root (signature-independent metadata, e.g. aggregation bits, blobs) is expected to be let in and is checked as such",
    ]
    R.proofs()
    # application wiring (app/app.go), regenerated from the source on every run: translator/appwire -> coq/gen/AppWiring.v
    rc_t, out_t = vp.run_translator("appwire", "AppWiring.v")
    R.coverage["translator_appwire"] = out_t.strip().splitlines()[-1] if out_t.strip() else "rc=%d" % rc_t
    if rc_t != 0:
        R.broke("translator:appwire failed on %s/app/app.go (a construction shape it can not interpret; obligation C10_app_pubshares_by_share_index)" % vp.REPO, out_t[-3000:])
    vp.sub_proofs(R, "C10_app", "app")
    leaves = 1000 if R.thorough else 5
    elems = 6 if R.thorough else 2
    rc, out, od = vp.go_harness("gate", outdir=os.path.join(vp.WORK, "gate_%d" % os.getpid()), env_extra={"VERIF_LEAVES": leaves, "VERIF_ELEMS": elems, "VERIF_CACHE": vp.WORK})
    if not os.environ.get("VERIF_REPLAY"):
        HIST.update({"hist_seed": R.seed, "hist_leaves": leaves, "hist_elems": elems})
    if rc != 0:
        R.broke("correspondence:harness gate failed to run", out[-3000:])
        R.finish()
    data = json.load(open(os.path.join(od, "gate_cases.json")))
    shutil.rmtree(od, ignore_errors=True)   # private output directory: concurrent runs of this check do not clobber each other
    allcs = data["cases"]
    skipped = [c for c in allcs if c.get("skipped")]
    cs = [c for c in allcs if not c.get("skipped")]
    R.coverage["evaluations"] = len(cs)
    seen = set()
    for c in cs:
        if c.get("nontrivial"):
            seen.add(vp.digest([c["entrance"], c["endpoint"], c["gen"], c["class"], c["label"]]))
    R.coverage["distinct_nontrivial"] = len(seen)
    R.coverage["rule"] = ("one evaluation = one call of a validatorapi.Component handler (secure mode, real pubshares, beaconmock) or one message handled by the real parsigex handler "
                          "(NewParSigEx + NewEth2Verifier + NewDutyGater); non-trivial = the request carries an alteration of an otherwise valid submission "
                          "(each reflection-enumerated leaf field with the original signature; the same re-signed with the right share; wrong share; wrong validator; other domain; other fork; zero/random/infinity/foreign-key signature; "
                          "validator unknown to the beacon node / not in the lock / index of another validator; peers: out-of-range/zero/negative/other share index, entry filed under another/unknown public key, "
                          "duty outside the gater window (epoch offsets, the exact first/last slot of the window, and absolute slots 2^31, 2^53, 2^60, 2^63-1, 2^63, 2^64-1 around validly signed objects), objects whose own signing epoch is the first epoch of a fork of the beacon mock (2048, 50688; attestations with the slot still in the previous fork) signed for the own epoch and with the neighbouring fork's domain, and objects signed with a far-away fork's domain after the same component served that fork, objects at epochs 0, 1 and at the last epoch before / first epoch of every fork of the mock's schedule signed under the fork version the spec prescribes and under each other fork version of the schedule (compute_domain evaluated in the harness from the fork schedule, never GenesisDomain except for builder registrations), a beacon-node lookup fault of each kind at each lookup position around valid / wrong-share / wrong-domain / altered submissions, a signature that was let in once re-presented over altered content, requests of the batch-taking validator-API handlers with repeated (validator, slot) entries mixing valid and invalid items in every order (valid then wrong-share / zero / altered / other-fork, invalid then valid, valid then valid with other content, the same object twice, several validators interleaved), submissions for two validators of the lock whose abbreviated public keys (core.PubKey.String()) collide -- genuine and cross-signed in both directions -- and for validators of a 200-strong crowd in the same lock, invalid duty type, bare-signature duty type, duty-type confusion, one bad entry among good ones at each position); distinct by hash of (endpoint, type, class, label)")
    table = collections.defaultdict(lambda: collections.Counter())
    outcome = collections.Counter()
    pre_texts = collections.Counter()
    for c in cs:
        table[c["endpoint"]][cls(c)] += 1
        outcome["%s:%s" % (c["entrance"], c["err"] or "delivered")] += 1
        if c.get("fault"):
            outcome["%s:fault_fired:%s" % (c["entrance"], c.get("fault_kind"))] += 1
        if c["err"] == "EPre":
            pre_texts[re.sub(r"[0-9a-fx]{8,}|\d+", "#", c["err_text"])[:70]] += 1
    gens = collections.defaultdict(set)
    for c in cs:
        gens[c["endpoint"]].add(c["gen"])
    R.coverage["endpoint_x_alteration"] = {ep: dict(sorted(t.items())) for ep, t in sorted(table.items())}
    R.coverage["endpoint_types_x_forks"] = {ep: sorted(g) for ep, g in sorted(gens.items())}
    R.coverage["leaf_fields_enumerated"] = data.get("leaves", {})
    R.coverage["leaf_fields_altered_per_type"] = "all" if R.thorough else "%d sampled per (endpoint, type) with original signature, %d re-signed" % (leaves, (leaves + 1) // 2)
    R.coverage["input_distribution"] = {"outcomes": dict(sorted(outcome.items())), "EPre_texts": dict(pre_texts.most_common(12)),
                                        "skipped_unencodable": len(skipped), "registrations_swallowed": data.get("registrations_swallowed")}
    R.coverage["endpoints_not_covered"] = ["SubmitValidatorRegistrations (takes nothing in; checked separately that no subscriber is called)",
                                           "HTTP router / JSON decoding in front of validatorapi.Component", "libp2p transport in front of parsigex.handle"]
    if data.get("registrations_swallowed") is False:
        R.violation("registrations-reach-subscribers", "SubmitValidatorRegistrations called a subscriber", {"endpoint": "SubmitValidatorRegistrations"})
    R.add_samples([{"spec": spec_of(c), "label": c["label"], "err": c["err_text"]} for c in cs if c.get("nontrivial")][:2])
    byid = {c["id"]: c for c in cs}
    bad = [c for c in cs if c["err"] in ("EUnknown", "EPanic")]
    for c in bad[:4]:
        if c["err"] == "EPanic":
            R.violation("handler-panic", "handler panicked on %s %s (%s): %s" % (c["endpoint"], c["gen"], c["class"], c["err_text"]), spec_of(c))
        else:
            R.broke("correspondence:error the model has no class for: %s (%s %s %s)" % (c["err_text"], c["endpoint"], c["gen"], c["class"]), json.dumps(spec_of(c)))
    cs = [c for c in cs if c["err"] not in ("EUnknown", "EPanic")]
    shards = list(vp.chunks(cs, 400))
    with concurrent.futures.ThreadPoolExecutor(max_workers=14) as ex:   # shards are independent coqc runs
        results = list(ex.map(lambda a: vp.coq_eval("C10p%d_%d" % (os.getpid(), a[0]), cases_v(data["lock"], a[1])), enumerate(shards)))
    for f in glob.glob(os.path.join(vp.COQ, "gen", "*cases_C10p%d_*" % os.getpid())) + glob.glob(os.path.join(vp.COQ, "gen", ".cases_C10p%d_*" % os.getpid())):
        os.remove(f)
    for rc, out in results:
        if rc != 0:
            R.broke("correspondence:cases_C10 does not compile", out[-3000:])
            continue
        rej = ids(vp.parse_marked(out, "rejects"))
        hits = ids(vp.parse_marked(out, "monitor_hits"))
        for cid in hits:
            c = byid[cid]
            key = "delivered-invalid:%s" % c["endpoint"]
            if c.get("fault") and any(c["calls"]):
                key = "delivered-on-aborted-verification:%s" % c["endpoint"]
            R.violation(key, "%s (%s) handed subscribers a partial signature that is not valid per the rule; alteration %s; delivered %s" % (c["endpoint"], c["gen"], c["class"], c["calls"]),
                        dict(spec_of(c), observed={"err": c["err_text"], "calls": c["calls"]}, label=c["label"],
                             how="./check C10 --replay <this file> rebuilds the request from the spec and calls the handler in /repo"))
        for cid in rej:
            if cid in hits:
                continue
            c = byid[cid]
            R.broke("correspondence:Gate model does not allow observed outcome of case %d (%s, %s, %s): err=%r calls=%s items=%s" % (cid, c["endpoint"], c["gen"], c["class"], c["err_text"], c["calls"], c["abstract_items"]),
                    json.dumps({"spec": spec_of(c), "label": c["label"]}))
    R.coverage["traces_validated_against_impl"] = len(cs)
    R.finish()
