"""C13 DKG reliable broadcast: theorems in coq/Properties/C13.v over the model coq/Flow/Bcast.v;
correspondence = trace inclusion: the label sequences recorded by harness/bcast from real bcast components on
in-process libp2p hosts (honest members = bcast.New, faulty members and an outsider scripted, speaking the two
protocols directly) must be accepted by the model and pass the monitor that transcribes the property."""
import collections
import json
import os
import re

import vp


def cases_v(hs):
    rows = []
    for h in hs:
        fl = sorted(set(h["faulty"] or []) | {h["n"]})   # the outsider (index n) is always scripted
        rows.append("(%d%%nat, (%d%%nat, [%s], [%s]))" % (
            h["id"], h["n"], "; ".join("%d%%nat" % f for f in fl), ";\n   ".join(h["labels"])))
    return """From Coq Require Import List NArith Arith Bool.
From Charon Require Import Flow.Bcast.
Import ListNotations.
Local Open Scope N_scope.
Definition cases : list (nat * (nat * list nat * list (label TD))) := [
%s
].
Definition rejects := Eval vm_compute in
  flat_map (fun c => match c with (i, (n, fl, ls)) =>
    match first_reject TD TD_eqb thash n (fset fl) cur (init TD) ls 0 with Some k => [(i, k)] | None => [] end end) cases.
Definition monitor_hits := Eval vm_compute in
  flat_map (fun c => match c with (i, (n, fl, ls)) =>
    match first_violation TD n (fset fl) ginit ls 0 with Some k => [(i, k)] | None => [] end end) cases.
Print rejects.
Print monitor_hits.
""" % ";\n".join(rows)


def pairs(term):
    return [(int(a), int(b)) for a, b in re.findall(r"\((\d+)%?n?a?t?, (\d+)%?n?a?t?\)", term or "")]


def script_of(h):
    return {k: h[k] for k in ("kind", "n", "faulty", "ops", "nomsg", "fresh") if k in h}


def classify_hit(h, idx):
    """Stable key for a monitor violation, from the violating label."""
    lab = h["labels"][idx] if idx < len(h["labels"]) else ""
    m = re.match(r"LMsg (\d+) (\d+)%nat (\d+)%nat (\d+) (\(\d+, \d+\)) \[(.*)\] (true|false) ODeliver", lab)
    if m:
        q = m.group(3)
        senders = set(re.findall(r"Sig \d+%nat \(\d+, (None|Some \d+%nat),", m.group(6)))
        if senders and senders != {"Some %s%%nat" % q}:
            return "F8:relay-delivered", ("member %s delivered (sender %s, id %s, payload %s) on signatures that were made for another "
                                          "broadcaster (or for none): a fully signed message re-sent by another member is delivered as that member's"
                                          % (m.group(2), q, m.group(4), m.group(5)))
        slots = re.findall(r"(?:Sig (\d+)%nat|Junk)", m.group(6))
        if any(s != "" and int(s) != i for i, s in enumerate(slots)):
            return "delivery:signature-in-wrong-slot", ("member %s delivered (sender %s, id %s, payload %s) on a signature list in which some slot i does not hold member i's signature "
                                                         "(the receiver's table of member keys is not the cluster's): %s" % (m.group(2), q, m.group(4), m.group(5), m.group(6)[:400]))
        want = "(%s, Some %s%%nat, %s, %s)" % (m.group(1), q, m.group(4), m.group(5))
        covers = re.findall(r"Sig \d+%nat (\(\d+, (?:None|Some \d+%nat), \d+, \(\d+, \d+\)\))", m.group(6))
        if [c for c in covers if c != want] or "Junk" in m.group(6):
            return "delivery:signatures-do-not-cover-message", ("member %s delivered (sender %s, id %s, payload %s) although the signature list it was sent does not consist of "
                                                                "every member's signature over exactly H(session %s, sender, id, payload): %s"
                                                                % (m.group(2), q, m.group(4), m.group(5), m.group(1), m.group(6)[:300]))
        return "delivery-monitor", "a delivery without a sign event of every honest member for exactly (session, sender, id, payload), or a second payload for the same sender and id"
    m = re.match(r"LSigReq (\d+) (\d+)%nat (\d+)%nat (\d+) (\(\d+, \d+\)) \w+ \(OSig", lab)
    if m:
        pref = "LSigReq %s %s%%nat %s%%nat %s " % m.group(1, 2, 3, 4)
        prev = [l for l in h["labels"][:idx] if l.startswith(pref) and "(OSig" in l and not l.startswith(pref + m.group(5))]
        if prev:
            what = ("member %s answered signature requests of requester %s for message id %s with valid signatures over two different payloads (%s after %s)"
                    % (m.group(2), m.group(3), m.group(4), m.group(5), prev[0][len(pref):].split(")")[0] + ")"))
            dels = collections.defaultdict(set)
            for l in h["labels"]:
                d = re.match(r"LMsg (\d+) (\d+)%nat (\d+)%nat (\d+) (\(\d+, \d+\)) .* ODeliver$", l)
                if d:
                    dels[d.group(1, 3, 4)].add((d.group(2), d.group(5)))
            dis = [(k, v) for k, v in dels.items() if len({p for _, p in v}) > 1]
            if dis:
                k, v = dis[0]
                what += "; attack completed: for sender %s, id %s honest members delivered different payloads %s" % (k[1], k[2], sorted(v))
            return "equivocation:two-payloads-signed", what
    if lab.startswith("LSigReq"):
        return "sign-monitor", "an honest member signed an unregistered id, without a passed check, or a second payload for one (requester, id)"
    return "trace-monitor", "observed trace violates the C13 monitor"


# Protocol ids the consumers of bcast register on the host besides bcast's own, as observed on the clean tree
# (HEAD 3d1886d) by harness/overlay/dkg/zz_verif_c13_test.go.  bcast's own ids must be its sig / msg phases.
CONSUMER_PROTOCOLS = {
    "bcast": ["/charon/dkg/bcast/2.0.0/msg", "/charon/dkg/bcast/2.0.0/sig"],
    "pedersen.NewBoard": ["/charon/dkg/pedersen/1.0.0/deal_bundle", "/charon/dkg/pedersen/1.0.0/just_bundle",
                          "/charon/dkg/pedersen/1.0.0/resp_bundle", "/charon/dkg/pedersen/1.0.0/val_pubkey_share"],
    "newFrostP2P": ["/charon/dkg/frost/2.0.0/round1/p2p"],
    "newNodeSigBcast": [],
}


def consumers(R):
    """Structural + behavioural family over the real consumers of bcast (pedersen board, frost transport, node
    signatures) wired on one libp2p host as dkg.Run does: no protocol id outside the allow-list, and nothing reaches
    a consumer's delivery channel except through bcast's verified delivery."""
    ov = {"zz_verif_c13_test.go": os.path.join(vp.VERIF, "harness", "overlay", "dkg", "zz_verif_c13_test.go")}
    od = os.path.join(vp.WORK, "ov_dkg_c13")
    res = os.path.join(od, "bcast_consumers.json")
    if os.path.exists(res):
        os.remove(res)
    rc, out, od = vp.go_overlay_test("dkg", ov, run="TestVerifC13Consumers", timeout=900, outdir=od)
    if rc != 0 or not os.path.exists(res):
        R.broke("correspondence:consumer harness (overlay dkg/TestVerifC13Consumers) failed to run", out[-3000:])
        return
    o = json.load(open(res))
    how = "./check C13 --replay <this file> re-runs the consumer family (go test -overlay, package dkg, TestVerifC13Consumers) against VERIF_REPO"
    nnew = 0
    for comp, ids in sorted(o["protocols"].items()):
        for pid in ids:
            if pid not in CONSUMER_PROTOCOLS.get(comp, []):
                nnew += 1
                R.violation("consumer:new-protocol-id", "%s registers the protocol id %s on the host, which is not in the allow-list observed on the clean tree: "
                            "a further entrance next to bcast's verified delivery" % (comp, pid),
                            {"consumer": True, "component": comp, "protocol": pid, "registered": o["protocols"], "how": how})
    hits = [p for p in o["probes"] if p.get("delivered")]
    for p in hits[:3]:
        R.violation("consumer:unverified-delivery",
                    "a payload of bcast message id %s sent by a faulty member on protocol id %s (%s), signed by nobody, arrived on %s: "
                    "two receivers can be given different payloads for the same sender and message id"
                    % (p["msg_id"], p["protocol"], "wrapped in Any" if p.get("wrapped_in_any") else "raw", p["delivered"]),
                    {"consumer": True, "probe": p, "registered": o["protocols"], "how": how})
    R.coverage["consumers"] = {"what": "pedersen.NewBoard + newFrostP2P + newNodeSigBcast + bcast.New on one libp2p host (as dkg.Run wires them); a faulty member streams every bcast message type to every non-bcast protocol id and to every bcast message id used as protocol id",
                               "protocol_ids_by_component": o["protocols"], "bcast_message_ids": o["bcast_message_ids"],
                               "probes": len(o["probes"]), "probes_stream_opened": sum(1 for p in o["probes"] if p.get("stream_ok")),
                               "unverified_deliveries": len(hits), "protocol_ids_outside_allow_list": nnew}
    R.coverage["evaluations"] += len(o["probes"])
    for x in o.get("notes") or []:
        R.notes.append("consumers: " + x)


def main():
    R = vp.Result("C13")
    R.assumptions = [
        "cryptography is symbolic: the digest H(session, sender, id, typeURL, bytes) is injective (Section hypothesis hash_inj); k1 signatures are unforgeable: a signature of an honest member appears in a message only after that member executed sign on that digest (built into step as [knowable]); the k1 key signs bcast digests only (no other protocol signs attacker-chosen 32-byte strings with it)",
        "a handler never runs with the receiver's own peer id as transport peer (libp2p refuses to dial self; honest clients skip themselves)",
        "the adversary is the whole environment of the honest instances: any number of faulty members and non-members may send any request/message to anyone at any time; honest clients are a special case, so client.go enters the theorems only through its local signature (made without the dedup table) and its return value",
        "'honest members sign at most one payload per (requester, id)' is about signatures given in answer to signature requests (requester <> signer); a client's own signature is not deduplicated by the code, which is harmless because a member never delivers its own broadcasts",
        "the application's checkMessage result and anypb UnmarshalNew are inputs (label fields ck, um), not modelled functions; callback errors are not modelled (the callback has been invoked by then)",
        "the race class (concurrent conflicting signature requests) is a probabilistic detector of non-atomic handlers: the theorems assume handleSigRequest's check-and-store on the dedup table is atomic (one lock acquisition), the harness only samples interleavings; counts are in coverage.race",
        "the theorems are about deliveries through bcast; that the applications (pedersen board, frost transport, node signatures) have no other entrance to their delivery channels is checked structurally (protocol ids registered on the host vs. an allow-list) and behaviourally (a faulty member streams every message type to every other protocol id) by the consumer family, not proved",
        "harness: error classes of refusals are read from the handler's error log line; responses to honest clients are not observed individually (label OSAny) unless the Broadcast succeeded; all faulty members are played by one script (they share what they see)",
    ]
    R.proofs()
    rp = os.environ.get("VERIF_REPLAY")
    if rp:
        try:
            rj = json.load(open(rp))
            if (rj.get("replay") or rj).get("consumer"):
                consumers(R)
                R.finish()
        except (OSError, ValueError):
            pass
    n = 1500 if R.thorough else 200
    rc, out, od = vp.go_harness("bcast", env_extra={"VERIF_N": n, "VERIF_RACE_IDS": 300 if R.thorough else 150}, timeout=1500)
    if rc != 0:
        R.broke("correspondence:harness bcast failed to run", out[-3000:])
        R.finish()
    hs = json.load(open(os.path.join(od, "bcast_traces.json")))
    R.coverage["evaluations"] = len(hs)
    seen = set()
    kinds, sizes, nfaulty, lkinds, stats, ops = (collections.Counter() for _ in range(6))
    notes = []
    for h in hs:
        if h.get("nontrivial"):
            seen.add(vp.digest(h["labels"]))
        kinds[h["kind"]] += 1
        sizes["n=%d" % h["n"]] += 1
        nfaulty["members_scripted=%d" % len(h["faulty"] or [])] += 1
        for l in h["labels"]:
            k = l.split(" ", 1)[0]
            if k == "LMsg":
                k += ":deliver" if l.endswith("ODeliver") else ":refused"
            elif k == "LSigReq":
                k += ":sig" if "(OSig" in l else (":unobserved" if l.endswith("OSAny") else ":refused")
            elif k in ("LSelfSign", "LBcastRet"):
                k += ":" + l.rsplit(" ", 1)[1]
            lkinds[k] += 1
        for k, v in (h.get("stats") or {}).items():
            stats[k] += v
        for o in h["ops"]:
            ops[o["op"]] += 1
        for x in (h.get("notes") or []):
            notes.append("script %d: %s" % (h["id"], x))
    R.coverage["distinct_nontrivial"] = len(seen)
    R.coverage["rule"] = ("scripts over 3..4 (quick) / 3..6 (thorough) libp2p hosts x 2 sessions + an outsider: corpus (F8 relay, pure relay, two broadcasters under one id, "
                          "the repo's own test sequence, cross-session / cross-id replays, outsider), replay-after-accept (accepted signature lists re-sent to the same and other receivers with another payload / the same payload / permuted / duplicated / under another id / in the other session, several rounds), bad-responder (own hosts; the scripted member refuses the msg protocol / answers honest clients' signature requests with a wrong id, empty, short, unrelated or junk signature, late or not at all; then equivocation with crafted lists carrying its signature in foreign slots, relays, and honest broadcasts again) and random compositions of honest broadcasts, complete broadcasts by a scripted "
                          "member with withholding, per-receiver equivocation, signature-list subsets/permutations/substitutions/duplications/wrong lengths, relays, unregistered ids, "
                          "late registration, malformed payloads; race = concurrent conflicting requests over 150 (quick) / 300 (thorough) registered ids per cluster size; non-trivial = at least one delivery and at least one refusal observed; distinct by hash of the observed label sequence")
    R.coverage["input_distribution"] = {"kinds": dict(kinds), "cluster_sizes": dict(sizes), "scripted_members": dict(nfaulty),
                                        "ops": dict(ops), "labels": dict(lkinds), "observations": dict(stats)}
    if stats.get("race_groups"):
        R.coverage["race"] = {
            "what": "probabilistic detector for a non-atomic dedup in handleSigRequest: per registered id and honest receiver, 2-3 signature requests with different payloads on pre-opened streams released together",
            "groups_raced (receiver x id)": stats["race_groups"], "requests": stats["race_requests"],
            "groups_in_which_two_payloads_were_signed": stats.get("race_groups_two_payloads_signed", 0),
            "attacks_completed_to_disagreeing_deliveries": stats.get("race_attacks_completed", 0)}
    R.add_samples([{"script": script_of(h), "labels": h["labels"]} for h in hs if h.get("nontrivial")][:2])
    if notes:
        R.notes.extend(notes[:20])
    schemes = {h.get("scheme") for h in hs}
    if "" in schemes or None in schemes:
        R.broke("correspondence:digest layout of dkg/bcast not recognised (neither H'(sender, H(session, id, typeURL, bytes)) nor H(session, id, typeURL, bytes)); the scripted members cannot sign",
                "schemes seen: %s" % sorted(str(s) for s in schemes))
    if stats.get("error_class_not_captured"):
        R.notes.append("%d refusals whose error class could not be read from the log (accepted as 'some error')" % stats["error_class_not_captured"])
    byid = {h["id"]: h for h in hs}
    for shard_i, shard in enumerate(vp.chunks(hs, 500)):
        rc, out = vp.coq_eval("C13_%d" % shard_i, cases_v(shard))
        if rc != 0:
            R.broke("correspondence:cases_C13 does not compile", out[-3000:])
            continue
        rej = pairs(vp.parse_marked(out, "rejects"))
        hits = pairs(vp.parse_marked(out, "monitor_hits"))
        for cid, idx in hits:
            h = byid[cid]
            key, what = classify_hit(h, idx)
            rep = script_of(h)
            rep.update({"labels": h["labels"], "index": idx, "violating_label": h["labels"][idx] if idx < len(h["labels"]) else "?",
                        "how": "./check C13 --replay <this file> re-runs the script against /repo (VERIF_REPO) with fresh hosts"})
            R.violation(key, "%s (label %d of script %d, kind %s)" % (what, idx, cid, h["kind"]), rep)
        hit_ids = {c for c, _ in hits}
        for cid, idx in rej:
            if cid in hit_ids:
                continue
            h = byid[cid]
            R.broke("correspondence:Bcast model rejects observed trace %d (%s) at label %d: %s" % (cid, h["kind"], idx, h["labels"][idx] if idx < len(h["labels"]) else "?"),
                    json.dumps({"script": script_of(h), "labels": h["labels"]}))
    R.coverage["traces_validated_against_impl"] = len(hs)
    if not rp:
        consumers(R)
    R.finish()
