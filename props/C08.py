"""C08 threshold BLS algebra.

Theorems: coq/Properties/C08.v (Tbls/Shamir.v over any field; Tbls/ShamirZ.v executable instance).
Correspondence: harness/tbls drives the real tbls package (herumi) -> Lagrange coefficients, exact
ThresholdSplitInsecure shares, ThresholdSplit (relational), RecoverSecret samples are evaluated against
the Z-mod-r model by vm_compute; the group-side monitors (recover pubkey / aggregate / verify, single
substitutions) run on the real curve in Go with the verdict predicted by the iff theorems;
harness/overlay/cluster drives the unexported cluster.verifySharesReconstruct against vsr_checkZ."""
import json
import os
import re

import vp

OVERLAY = {"zz_verif_c08_test.go": os.path.join(vp.HARNESS, "overlay", "cluster", "zz_verif_c08_test.go")}

HEADER = """From Coq Require Import ZArith List Bool.
From Charon Require Import Tbls.ShamirZ Tbls.ShamirCorr.
Import ListNotations.
Local Open Scope Z_scope.
"""


def zl(xs):
    return "[" + "; ".join(str(x) for x in xs) + "]"


def render(name, ty, okfn, rows):
    return (HEADER + "Definition cases : list (nat * (%s)) := [\n%s\n].\n"
            "Definition %s := Eval vm_compute in bad %s cases.\nPrint %s.\n" % (ty, ";\n".join(rows), name, okfn, name))


def ids_of(term):
    if term is None:
        return None
    return [int(x) for x in re.findall(r"(\d+)%?n?a?t?", term.replace("nat", ""))] if term.strip() not in ("[]", "nil") else []


JOBS = []


def evaluate(R, tag, name, ty, okfn, rows, what, byid, shard=250, concrete=None):
    """Queue the comparison of rows = [(id, rendered case)] against the model; run_jobs() evaluates."""
    for si, sh in enumerate(vp.chunks(rows, shard)):
        text = render(name, ty, okfn, ["(%d%%nat, %s)" % (i, r) for i, r in sh])
        JOBS.append(("C08_%s_%d" % (tag, si), name, text, what, byid, concrete))


def run_jobs(R):
    from concurrent.futures import ThreadPoolExecutor
    with ThreadPoolExecutor(max_workers=max(2, min(8, vp.NPROC // 2))) as ex:
        results = list(ex.map(lambda j: vp.coq_eval(j[0], j[2]), JOBS))
    failing = {}
    for (fname, name, _text, what, byid, concrete), (rc, out) in zip(JOBS, results):
        if rc != 0:
            R.broke("correspondence:cases_%s does not compile" % fname, out[-3000:])
            continue
        got = ids_of(vp.parse_marked(out, name))
        if got is None:
            R.broke("correspondence:cases_%s printed no result" % fname, out[-2000:])
            continue
        for i in got:
            if concrete:
                concrete(byid[i])
            else:
                failing.setdefault(what, []).append((i, byid[i]))
    for what, lst in failing.items():
        for i, c in lst[:5]:
            R.broke("correspondence:%s (case %d)" % (what, i), json.dumps(c)[:3000])
        if len(lst) > 5:
            R.broke("correspondence:%s: %d more cases" % (what, len(lst) - 5))
    del JOBS[:]


def main():
    R = vp.Result("C08")
    R.assumptions = [
        "the pairing groups are vector spaces over the scalar field with a bilinear map that is non-degenerate at the generator (Section hypotheses of Tbls/Shamir.v, satisfiable: C08_bls_model_exists); hash-to-curve never outputs the point at infinity",
        "primality of the BLS12-381 scalar order r is PROVED in Coq (C08_r_prime, Tbls/PrimeR.v: Pocklington's test with the factored part 2^32*3*906349^2*254760293^2 > sqrt r of r-1, base 7, evaluated by vm_compute); the general theorems about the executable instance take an arbitrary prime modulus as hypothesis, the _r versions are unconditional",
        "share ids are 1..n with n below the field characteristic (C08_ids_1_to_n_ok)",
        "the theorems are about a pure verification function; that tbls.Verify / VerifyAggregate behave as one (same call => same verdict whatever was called before, in one process) is not a theorem but is exercised by the stateful call sequences of the harness (history independence)",
        "herumi (C library behind tbls.Herumi) is exercised, not verified: scalars are 32-byte big-endian, Deserialize rejects values >= r and accepts 0, Recover interpolates through all shares handed to it",
    ]
    R.proofs(extra_targets=["Tbls/ShamirCorr.v"])

    replay = None
    if os.environ.get("VERIF_REPLAY"):
        try:
            replay = json.load(open(os.environ["VERIF_REPLAY"]))
            replay = replay.get("replay", replay)
        except (OSError, ValueError) as e:
            R.broke("replay file unreadable", str(e))
            R.finish()
    run_tbls = replay is None or "s" in replay or "secret" in replay or "calls" in replay or "gcalls" in replay
    run_vsr = replay is None or "dv" in replay
    if replay is not None and not (("s" in replay) or ("calls" in replay) or ("gcalls" in replay) or ("dv" in replay)):
        # replay of a theorem/correspondence break: run the whole check
        os.environ.pop("VERIF_REPLAY", None)
        run_tbls = run_vsr = True
        replay = None

    evaluations = 0
    dist = {}
    # ------------------------------------------------------------------ tbls package
    if run_tbls:
        rc, out, od = vp.go_harness("tbls")
        if rc != 0:
            R.broke("correspondence:harness tbls failed to run", out[-3000:])
            R.finish()
        o = json.load(open(os.path.join(od, "tbls_cases.json")))
        for v in o.get("violations") or []:
            R.violation(v["key"], v["what"], v["replay"])
        for b in (o.get("broken") or [])[:5]:
            R.broke("correspondence:" + b)
        lag = o.get("lagrange") or []
        evaluate(R, "lag", "lag_bad", "list Z * list Z", "lag_ok",
                 [(c["id"], "(%s, %s)" % (zl(c["ids"]), zl(c["coeffs"]))) for c in lag],
                 "Lagrange coefficients of herumi's RecoverSecret differ from lagrange_coeffs", {c["id"]: c for c in lag})
        sp = o.get("split") or []
        evaluate(R, "split", "split_bad", "(Z * nat * nat * list Z) * option (list Z)", "split_ok",
                 [(c["id"], "((%s, %d%%nat, %d%%nat, %s), %s)" % (c["secret"], c["n"], max(c["t"], 0), zl(c["chunks"]),
                                                                    ("Some " + zl(c["shares"])) if c["ok"] else "None")) for c in sp],
                 "ThresholdSplitInsecure differs from split_insecure", {c["id"]: c for c in sp})
        se = o.get("secure") or []
        evaluate(R, "secure", "secure_bad", "Z * nat * list Z", "secure_ok",
                 [(c["id"], "(%s, %d%%nat, %s)" % (c["secret"], c["t"], zl(c["shares"]))) for c in se],
                 "ThresholdSplit shares are not on one polynomial of degree exactly t-1 with the secret as constant term", {c["id"]: c for c in se})
        rec = [c for c in (o.get("recover") or []) if c["ok"]]
        evaluate(R, "rec", "rec_bad", "list (Z * Z) * Z", "recover_ok",
                 [(c["id"], "(%s, %s)" % ("[" + "; ".join("(%d, %s)" % (i, v) for i, v in zip(c["ids"], c["vals"])) + "]", c["result"])) for c in rec],
                 "RecoverSecret differs from recoverZ", {c["id"]: c for c in rec})
        evaluations += len(lag) + len(sp) + len(se) + len(rec) + o.get("group_evals", 0) + o.get("history_calls", 0) + o.get("failure_history_calls", 0) + o.get("far_id_calls", 0) + o.get("alias_sequences", 0) + o.get("conversion_calls", 0)
        dist.update(o.get("dist") or {})
        dist["group_kinds"] = o.get("group_kinds")
        dist["degenerate_substitutions_expected_to_verify"] = o.get("degenerate_expected_verifies")
        dist["history_independence"] = {"sequences": o.get("history_blocks"), "calls": o.get("history_calls"), "by": o.get("history_stats")}
        dist["tblsconv"] = {"conversion_calls": o.get("conversion_calls"), "validator_pairs_with_colliding_abbreviation": o.get("conversion_monitor_pairs")}
        dist["input_aliasing_sequences"] = o.get("alias_sequences")
        dist["large_wrapped_negative_share_id_calls"] = o.get("far_id_calls")
        dist["history_independence_after_failing_calls"] = {"sequences": o.get("failure_history_sequences"), "calls": o.get("failure_history_calls"), "by": o.get("failure_history_stats")}
        dist["model_comparisons"] = {"lagrange_sets": len(lag), "lagrange_coefficients": sum(len(c["ids"]) for c in lag),
                                     "split_insecure": len(sp), "split_csprng": len(se), "recover": len(rec)}
        R.coverage["distinct_nontrivial"] += o.get("distinct_scenarios", 0) + len(lag) + len(sp) + len(se) + len(rec) + o.get("history_blocks", 0) + o.get("failure_history_sequences", 0) + o.get("far_id_calls", 0) + o.get("alias_sequences", 0)
        R.add_samples(o.get("samples") or [], 2)
        if lag:
            R.add_samples([lag[len(lag) // 2]], 1)

    # ------------------------------------------------------------------ cluster.verifySharesReconstruct
    if run_vsr:
        rc, out, od = vp.go_overlay_test("cluster", OVERLAY, run="TestVerifC08")
        if rc != 0:
            R.broke("correspondence:overlay test cluster failed to run", out[-3000:])
        else:
            vs = json.load(open(os.path.join(od, "vsr_cases.json")))
            evaluate(R, "vsr", "vsr_bad", "Z * list Z * nat * bool", "vsr_ok",
                     [(c["id"], "(%s, %s, %d%%nat, %s)" % (c["dv"], zl(c["shares"]), max(c["t"], 0), "true" if c["ok"] else "false")) for c in vs],
                     "cluster.verifySharesReconstruct verdict differs from vsr_checkZ", {c["id"]: c for c in vs},
                     concrete=lambda c: R.violation(
                         "vsr:accepts-shares-off-the-polynomial" if c["ok"] else "vsr:rejects-valid-shares",
                         "cluster.verifySharesReconstruct(threshold=%d, %d shares) %s, but the shares (public keys of the listed scalars) %s on one polynomial of degree < threshold with the group key as constant term (vsr_checkZ / C08_verify_shares_reconstruct_sound)"
                         % (c["t"], len(c["shares"]), "accepts" if c["ok"] else ("rejects: " + c.get("err", "")), "do NOT lie" if c["ok"] else "DO lie"),
                         c))
            evaluations += len(vs)
            R.coverage["distinct_nontrivial"] += len(vs)
            kinds = {}
            for c in vs:
                k = "%s:%s" % (c["kind"], "accept" if c["ok"] else "reject")
                kinds[k] = kinds.get(k, 0) + 1
            dist["verify_shares_reconstruct"] = kinds

    run_jobs(R)
    R.coverage["evaluations"] = evaluations
    R.coverage["rule"] = ("group-side: one evaluation = one (polynomial shape, n, t, subset S, substituted position, kind) run on the real curve "
                          "(positive: RecoverSecret/RecoverPubkey/ThresholdAggregate/Verify over S, |S| >= t; negative: one share / index / message substituted, verdict must equal the one given by the iff theorems, "
                          "including the degenerate shapes 'flat' (all shares equal) and 'zero_share'); distinct by that tuple. "
                          "messages have lengths 0, 1, 31, 32, 33, 64, 96 bytes (cycled), the 'other' message of a substitution is a related one (same 32-byte prefix and another tail, truncated, zero-extended, trailing zeros stripped, same tail and another prefix). "
                          "history independence: stateful call sequences against the one process-wide tbls implementation (each Verify / VerifyAggregate call is one evaluation, a sequence counts once as distinct): after every successful verification "
                          "(plain, threshold-aggregated group signature, FastAggregateVerify) the same signature is re-offered for related messages and related public keys / key sets, wrong calls are repeated, valid calls re-checked; every verdict must be the pure function's. "
                          "failing calls: for each entry point (RecoverPubkey, RecoverSecret, ThresholdAggregate, Verify, VerifyAggregate, ThresholdSplit, ThresholdSplitInsecure) a failing call "
                          "(malformed G1/G2 point or scalar >= r at each position next to valid entries of another key set under colliding and non-colliding ids, id 0, negative id, empty map, bad threshold, rejecting reader) "
                          "is run back to back with honest calls on one goroutine, >= 64 times per template, in both orders and in bursts (some sequences under GOMAXPROCS=1); every honest result must equal the independently recomputed value "
                          "(big.Int Lagrange / polynomial evaluation), every failing call must repeat its outcome. "
                          "input aliasing: every message buffer, key / signature slice and share map handed to a call is overwritten in place after the call returned and further calls are made with the mutated content from the same and from fresh slices "
                          "(Sign, partials + ThresholdAggregate, Verify, VerifyAggregate, Aggregate, RecoverSecret, RecoverPubkey); every result must be that of the CURRENT content (references from un-aliased calls, cross-checked by Verify; one sequence = one evaluation). "
                          "share ids: besides 1..10, ids i +- 256k, 2^16+i, 2^31-1, 2^31+i, 2^32+i and negative ids (Lagrange coefficient sets compared in Coq over Z; a share filed under such a far index must give exactly the model's value in RecoverSecret / RecoverPubkey / ThresholdAggregate and must not verify), "
                          "and splits with 300 shares (exact shares for every id in Go and in Coq, recovery from ids beyond 255). "
                          "tblsconv: every conversion (PubkeyFromCore, core.PubKeyFromBytes/From48Bytes round trip, PubKey.ToETH2, PubkeyFromBytes/ToETH2, PrivkeyFromBytes, SignatureFromBytes, SigFromCore/ToCore/ToETH2) on pairs of inputs that agree on the logging abbreviation "
                          "core.PubKey.String(), the first / last 4 and 8 bytes, or all but one byte, in both orders and interleaved with failing conversions (wrong lengths, non-hex): every result must be the byte-level identity; "
                          "and the aggregate/verify monitor through CONVERTED keys of two validators whose real group keys (ground from the seed) collide on the abbreviation: B's threshold aggregate verifies under convert(B), not under convert(A), A's aggregate is not accepted for B. "
                          "model comparisons: one per id set (Lagrange coefficients, all subsets of 1..7 quick / 1..10 thorough), per scripted split, per CSPRNG split, per sampled RecoverSecret (also below threshold), "
                          "per verifySharesReconstruct call; every one is a distinct input")
    R.coverage["input_distribution"] = dist
    R.finish()
