"""S1 tie of C02: the hypothesis trace_cmp_fun of the agreement theorem with compare failures
(coq/Properties/C02_cmp.v) against the wrapper's REAL Definition.Compare (core/consensus/qbft/qbft.go
newDefinition(...).Compare / attestationChecker; feature chain_split_halt = compareAttestations).

Theorems: coq/Properties/C02_compare.v (coq/Flow/CompareFun.v).  Harness: in-package overlay
harness/overlay/core_consensus_qbft/zz_verif_compare_test.go (TestVerifCompare) drives the real callback
as qbft.Run does and records (local-input id, proposed value hash, verdict); Coq evaluates
[functional] / [conflicts] on the observed table.  A pair with two different completed verdicts is a
concrete violation of the hypothesis (key compare-not-functional; compare-not-functional:retyped-any
when the two verdicts belong to two different Any wrappers of the same hash -- finding F11's shape).

run(R) is called by props/C02.py with the vp.Result of the C02 check (it does not call R.finish());
props/C02_compare.py runs it alone under the scratch id C02_compare."""
import json
import os
import re

import vp

OV = os.path.join(vp.HARNESS, "overlay", "core_consensus_qbft", "zz_verif_compare_test.go")
KEY = "compare-not-functional"
KEY_RETYPED = "compare-not-functional:retyped-any"


def cases_v(entries):
    rows = ["(%d%%nat, %s%%N, %s)" % (e["local"], e["hash"], e["verdict"]) for e in entries]
    return """From Coq Require Import List NArith Arith Bool.
From Charon Require Import Qbft.Model Flow.CompareFun.
Import ListNotations.
Definition tbl : list entry := [
%s
].
Definition is_functional := Eval vm_compute in functional tbl.
Definition the_conflicts := Eval vm_compute in conflict_pairs tbl.
Print is_functional.
Print the_conflicts.
""" % ";\n".join(rows)


def run(R):
    cov = R.coverage
    R.assumptions += [
        "compare: 'member' in trace_cmp_fun is represented by the member's local input (its own attestation data), which is fixed for one consensus instance "
        "(Propose is accepted once per duty; the value reaches Compare through VerifyCh or as the remembered inputValueSource)",
        "compare: core/qbft.compare()/awaitCompare() are unexported in another package and are replicated verbatim in the harness (buffered verdict/value channels, cancellable child ctx, round timer channel)",
        "compare: the table is sampled (value classes x rounds x orders x local-input timing); functionality of the real Compare over ALL values is by reading attestationChecker (a pure function of the two decoded sets), not a theorem",
    ]
    prev = {k: cov.get(k) for k in ("theorems", "checker_cmd", "coqchk")}
    R.proofs(pid="C02_compare")
    cov["compare_theorems"] = cov.get("theorems") or []
    cov["theorems"] = (prev["theorems"] or []) + [t for t in cov["compare_theorems"] if t not in (prev["theorems"] or [])]
    if prev["checker_cmd"] and prev["checker_cmd"] != cov.get("checker_cmd"):
        cov["checker_cmd"] = prev["checker_cmd"] + "; " + cov.get("checker_cmd", "")
    if "coqchk" in cov and prev["coqchk"] and prev["coqchk"] != cov["coqchk"]:
        cov["compare_coqchk"] = cov["coqchk"]
        cov["coqchk"] = prev["coqchk"]
    rc, log, od = vp.go_overlay_test("core/consensus/qbft", {"zz_verif_compare_test.go": OV}, run="TestVerifCompare$",
                                     env_extra={"VERIF_TIER": R.tier, "VERIF_REPLAY": ""},
                                     outdir=os.path.join(vp.WORK, "ov_compare_" + R.pid + "_" + vp.hashlib.sha256(vp.REPO.encode()).hexdigest()[:6]), timeout=600)
    if rc != 0:
        R.broke("correspondence:overlay harness TestVerifCompare failed to run", log[-3000:])
        return
    o = json.load(open(os.path.join(od, "compare.json")))
    entries = o.get("entries") or []
    bad = [e for e in entries if e["verdict"] not in ("CmpOk", "CmpFail", "CmpTimeout")]
    if bad or not entries:
        R.broke("correspondence:compare harness produced no / malformed entries", json.dumps(bad[:3]))
        return
    # the table, by pair
    pairs = {}
    for e in entries:
        pairs.setdefault((e["local"], e["hash"]), []).append(e)
    conflicts = {}
    for k, es in pairs.items():
        vs = {e["verdict"] for e in es} - {"CmpTimeout"}
        if len(vs) > 1:
            conflicts[k] = es
    rc, cout = vp.coq_eval("C02_compare" + ("" if vp.REPO == "/repo" else "s"), cases_v(entries))
    if rc != 0:
        R.broke("correspondence:cases_C02_compare does not compile", cout[-3000:])
    else:
        fun = (vp.parse_marked(cout, "is_functional") or "").strip()
        coq_conf = {(int(a), b) for a, b in re.findall(r"\((\d+)(?:%nat)?,\s*(\d+)(?:%N)?\)", vp.parse_marked(cout, "the_conflicts") or "")}
        if coq_conf != {(k[0], k[1]) for k in conflicts} or (fun == "true") != (not conflicts):
            R.broke("correspondence:Coq and the driver disagree on the conflicts of the compare table", "coq=%s functional=%s driver=%s" % (sorted(coq_conf)[:5], fun, sorted(conflicts)[:5]))
    for (local, h), es in sorted(conflicts.items()):
        ok_any = {e["any_id"] for e in es if e["verdict"] == "CmpOk"}
        fail_any = {e["any_id"] for e in es if e["verdict"] == "CmpFail"}
        retyped = not (ok_any & fail_any)
        key = KEY_RETYPED if retyped else KEY
        oks = [e for e in es if e["verdict"] == "CmpOk"]
        ex_ok = next((e for e in oks if not e["class"].startswith("retyped")), oks[0])
        ex_fail = next(e for e in es if e["verdict"] == "CmpFail")
        what = ("Definition.Compare is not a function of (member, proposed value hash): local input %d (%s), value hash %s...: CmpOk for %s [%s] (session %d, round %d) "
                "but CmpFail for %s [%s] (session %d, round %d: %s)" % (
                    local, (o.get("locals") or {}).get(str(local), ""), h[:18], ex_ok["class"], ex_ok["type_url"], ex_ok["session"], ex_ok["round"],
                    ex_fail["class"], ex_fail["type_url"], ex_fail["session"], ex_fail["round"], ex_fail["err"]))
        R.violation(key, what, {"seed": o["seed"], "tier": R.tier, "local": local, "hash": h, "ok": ex_ok, "fail": ex_fail, "what": what,
                                "how": "./check C02_compare re-runs TestVerifCompare (deterministic for a seed) against /repo"})
    # coverage
    multi = [k for k, es in pairs.items() if len([e for e in es if e["verdict"] != "CmpTimeout"]) >= 2]
    classes, verdicts, byclass = {}, {}, {}
    for e in entries:
        classes[e["class"]] = classes.get(e["class"], 0) + 1
        verdicts[e["verdict"]] = verdicts.get(e["verdict"], 0) + 1
        if e["local"] == 0 and e["verdict"] != "CmpTimeout":
            byclass.setdefault(e["class"], set()).add(e["verdict"])
    cov["evaluations"] += len(entries)
    cov["distinct_nontrivial"] += len(multi)
    cov["compare_evaluations"] = len(entries)
    cov["compare_pairs_consulted_repeatedly"] = len(multi)
    cov["compare_conflicting_pairs"] = len(conflicts)
    cov["compare_rule"] = ("one evaluation = one consultation of the real Compare callback driven as qbft.Run drives it; non-trivial = a (local input, value hash) pair with "
                           ">= 2 completed verdicts (different rounds / orders / sessions / after failures and timeouts); sessions: feature on with local data L0 (x4: orders, local value late, "
                           "local value after three timeouts), L1, a local value of the wrong type, no local value, feature off, three unsupported duty types")
    cov["compare_input_distribution"] = {"classes": classes, "verdicts": verdicts, "timings": {t: sum(1 for e in entries if e["timing"] == t) for t in ("ready", "late", "never")},
                                         "locals": o.get("locals"), "values_never_reaching_compare": o.get("skipped"),
                                         "verdict_by_value_class_for_local_L0": {k: sorted(v) for k, v in sorted(byclass.items())}}
