"""Stand-alone run of the network part of the C04 termination proof (props/c04_live_net.py) under the
scratch id C04_live_net:  ./check C04_live_net [--tier quick|thorough]."""
import vp
import c04_live_net


def main():
    R = vp.Result("C04_live_net")
    c04_live_net.run(R)
    R.finish()
