"""Stand-alone run of the compare-failure part of C02 (props/c02_cmp.py) under the scratch id
C02_cmp:  ./check C02_cmp [--tier quick|thorough] [--replay file].  The id is not in the
manifest; the C02 check calls c02_cmp.run(R) itself."""
import vp
import c02_cmp


def main():
    R = vp.Result("C02_cmp")
    c02_cmp.run(R)
    R.finish()
