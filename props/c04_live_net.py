"""C04 termination, network part: the closure hypotheses of C04_good_round_decides derived from
reachability in the network semantics coq/Qbft/Net.v for crash-only executions
(coq/Qbft/GoodRoundNet.v, statements in coq/Properties/C04_live_net.v): good_round_decides_from_net
for all n >= 1, the derived pool_ok / start_ok / leader_ok (incl. pool_fresh, buf_fresh) / rcs_in_pool,
one PRE-PREPARE per round, reachable n = 4 instances, and vm_compute counter-executions for the two
residual assumptions.  Proof-only; run(R) is called by props/c04_live.py (it does not call
R.finish()); props/C04_live_net.py runs it alone under the scratch id C04_live_net."""
import vp

ASSUMPTIONS = [
    "live-net: good_round_decides_from_net derives pool_ok, start_ok, leader_ok (pool_fresh, buf_fresh), rcs_in_pool "
    "from reachability (creach) in Qbft/Net.v; RESIDUAL assumptions: (A1) crash-only delivery -- no Byzantine member, no "
    "Compare failure, every delivered message was broadcast with that justification (Net.v proper also re-assembles "
    "justifications out of honest parts: C04_cross_assembly_breaks_buf_fresh); (A2) no member has decided and none -- in "
    "particular no stopped member outside R -- is in a round beyond r (C04_outsider_ahead_breaks_pool_ok shows reachability "
    "does not give it; the proof's pool invariant excludes such a pool although R would ignore the message); (A3) members of "
    "R started, not dead, in round r; (A4) r = 1 with a PRE-PREPARE(1) broadcast, or the leader has its input and every "
    "member of R has broadcast ROUND-CHANGE(r); (A5) delivered_all and fifo_ok for the delivery window",
]


def run(R):
    cov = R.coverage
    R.assumptions += ASSUMPTIONS
    prev = {k: cov.get(k) for k in ("theorems", "checker_cmd", "coqchk")}
    ok = R.proofs(pid="C04_live_net")
    cov["live_net_theorems"] = cov.get("theorems") or []
    cov["theorems"] = (prev["theorems"] or []) + [t for t in cov["live_net_theorems"] if t not in (prev["theorems"] or [])]
    if prev["checker_cmd"] and prev["checker_cmd"] != cov.get("checker_cmd"):
        cov["checker_cmd"] = prev["checker_cmd"] + "; " + cov.get("checker_cmd", "")
    if "coqchk" in cov and prev["coqchk"] and prev["coqchk"] != cov["coqchk"]:
        cov["live_net_coqchk"] = cov["coqchk"]
        cov["coqchk"] = prev["coqchk"]
    cov["live_net_examples"] = ("n=4 crash-only reachable states (member 3 never starts), round 1 and round 2 after a timeout: "
                                "premises are state facts only, all three running members decide; counter-executions: a stopped "
                                "member one round ahead (pool_ok fails), a re-assembled justification in Net.v (buf_fresh fails)")
    return ok
