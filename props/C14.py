"""C14 duty data encoding: theorems in coq/Properties/C14.v about the byte-level envelope / dispatch /
set-marshalling models (coq/Codec/Envelope.v); correspondence = the models, instantiated with the
inner-codec and per-type decoder verdicts recorded from Go, must reproduce what core/ssz.go and
core/proto.go did on the same bytes (evaluated by vm_compute); round trips and the crash-freedom
exploration run in the Go harness (harness/codec) and are reported as exploration."""
import glob
import json
import os
import re

import vp

DUTY = {0: "DUnknown", 1: "DProposer", 2: "DAttester", 3: "DSignature", 4: "DExit", 5: "DBuilderProposer",
        6: "DBuilderRegistration", 7: "DRandao", 8: "DPrepareAggregator", 9: "DAggregator", 10: "DSyncMessage",
        11: "DPrepareSyncContribution", 12: "DSyncContribution", 13: "DInfoSync"}
STYPES = ["VersionedAttestation", "VersionedSignedProposal", "VersionedSignedValidatorRegistration", "SignedVoluntaryExit",
          "SignedRandao", "Signature", "BeaconCommitteeSelection", "SignedAggregateAndProof",
          "VersionedSignedAggregateAndProof", "SignedSyncMessage", "SyncCommitteeSelection", "SignedSyncContributionAndProof"]
UTYPES = ["AttestationData", "VersionedProposal", "VersionedAggregatedAttestation", "AggregatedAttestation",
          "SyncContributions", "SyncContribution"]
SHAPE = {"B": "SB", "V": "SV", "Att": "SAtt", "A": "SA"}

HEADER = """From Coq Require Import List NArith Bool String Uint63.
From Charon Require Import Codec.Envelope Codec.EnvelopeCorr.
Import ListNotations.
Local Open Scope string_scope.
Local Open Scope N_scope.
"""


def b(x):
    return "true" if x else "false"


def pack(hx):
    """hex string -> Coq [packed] literal: 7 bytes per primitive 63-bit word, little-endian in the word"""
    raw = bytes.fromhex(hx)
    words = []
    for i in range(0, len(raw), 7):
        words.append("0x%x" % int.from_bytes(raw[i:i + 7], "little"))
    return "{| p_len := %d; p_words := [%s]%%uint63 |}" % (len(raw), "; ".join(words))


def expect_term(e):
    k = e["kind"]
    if k == "err":
        return "OErr"
    if k == "panic":
        return "OPanic"
    if k == "ok":
        idx = "None" if e["idx"] is None else "(Some %d)" % e["idx"]
        return "(OOk %d %s %s %d)" % (e["ver"], b(e["flag"]), idx, e["pstart"])
    if k == "okA":
        return "(OOkA %d %d (mkDuty (hex \"%s\") %s))" % (e["o0"], e["o1"], e["pk"], " ".join(str(n) for n in e["duty_nums"]))
    raise ValueError(k)


def ecases_v(cs):
    rows = []
    for c in cs:
        orc = "[" + "; ".join("(%d, %s, %d, %d)" % (o[0], b(o[1]), o[2], o[3]) for o in (c["oracle"] or [])) + "]"
        inner = "None" if c["inner_is_suffix"] or not c["inner"] else "(Some %s)" % pack(c["inner"])
        reenc = "None" if c["reenc_is_input"] or not c["reenc"] else "(Some %s)" % pack(c["reenc"])
        rows.append("{| e_id := %d; e_shape := %s; e_bytes := %s; e_oracle := %s; e_expect := %s; e_pstart_known := %s; e_inner := %s; e_reenc := %s |}" % (
            c["id"], SHAPE[c["shape"]], pack(c["hex"]), orc, expect_term(c["expect"]), b(c["expect"]["pstart_known"]), inner, reenc))
    return HEADER + "Definition cases : list ecase := [\n" + ";\n".join(rows) + "\n].\n" + \
        "Definition mism := Eval vm_compute in ecases_mismatch cases.\nPrint mism.\n"


def dcases_v(cs):
    srows, urows = [], []
    for c in cs:
        duty = DUTY.get(c["duty"], "DOther")
        if c["signed"]:
            orc = "[" + "; ".join("(T%s, %s)" % (t, ", ".join(b(x) for x in c["oracle"][t])) for t in STYPES) + "]"
            exp = "None" if c["expect"] in ("", "PANIC") else "(Some T%s)" % c["expect"]
            ver = {"not-eth2": "(Some VNotEth2)", "ran": "(Some VRan)"}.get(c.get("verify", ""), "None")
            srows.append("{| s_id := %d; s_duty := %s; s_prefix := %s; s_oracle := %s; s_expect := %s; s_verify := %s |}" % (c["id"], duty, pack(c["prefix"]), orc, exp, ver))
        else:
            orc = "[" + "; ".join("(U%s, %s)" % (t, ", ".join(b(x) for x in c["oracle"][t])) for t in UTYPES) + "]"
            exp = "None" if c["expect"] in ("", "PANIC") else "(Some U%s)" % c["expect"]
            urows.append("{| u_id := %d; u_duty := %s; u_prefix := %s; u_oracle := %s; u_expect := %s |}" % (c["id"], duty, pack(c["prefix"]), orc, exp))
    return HEADER + "Definition scases : list scase := [\n" + ";\n".join(srows) + "\n].\n" + \
        "Definition ucases : list ucase := [\n" + ";\n".join(urows) + "\n].\n" + \
        "Definition dmism := Eval vm_compute in (flat_map check_scase scases ++ flat_map check_ucase ucases)%list.\nPrint dmism.\n"


def setcases_v(cs):
    rows = []
    for c in cs:
        rows.append("{| t_id := %d; t_keys_inserted := [%s]; t_keys_wire := [%s] |}" % (
            c["id"], "; ".join(pack(k) for k in c["inserted"]), "; ".join(pack(k) for k in c["wire"])))
    return HEADER + "Definition tcases : list setcase := [\n" + ";\n".join(rows) + "\n].\n" + \
        "Definition smism := Eval vm_compute in flat_map check_setcase tcases.\nPrint smism.\n"


def nums(term):
    return [int(x) for x in re.findall(r"(\d+)", term or "")]


def shard(cs, max_n=1000, max_hex=3000000):
    cur, size = [], 0
    for c in cs:
        w = len(c.get("hex", "")) + (0 if c.get("inner_is_suffix") else len(c.get("inner", ""))) + (0 if c.get("reenc_is_input") else len(c.get("reenc", "")))
        if cur and (len(cur) >= max_n or size + w > max_hex):
            yield cur
            cur, size = [], 0
        cur.append(c)
        size += w
    if cur:
        yield cur


def group_id(f):
    """Known-finding id shared by all operations that trip over the same incomplete value."""
    return "%s %s %s" % (f["type"], f.get("kind", ""), f.get("path", ""))


def main():
    # two runs of this check at the same time would share gen/cases_C14_*.v and .work/codec: serialise them
    with vp.locked("check_C14"):
        _main()


def _main():
    R = vp.Result("C14")
    extra = os.environ.get("VERIF_KNOWN_EXTRA")
    if extra and os.path.exists(extra):
        orig = vp.known_findings
        more = json.load(open(extra)).get("findings", [])
        vp.known_findings = lambda: orig() + more
    R.assumptions = [
        "inner codecs (go-eth2-client SSZ/JSON, fastssz helpers, encoding/json, protobuf) are parameters of the theorems: round-trip is assumed where a theorem needs it, and is what the harness round-trip runs sample",
        "json_prefix models bytes.TrimSpace for ASCII white space only; inputs whose first byte after ASCII white space is >= 0x80 are treated as non-JSON (encoding/json rejects them in either reading)",
        "when SSZ decoding fails and JSON is tried, Go decodes into the same (possibly partly filled) variable; the model treats the JSON decoder as a function of the bytes alone",
        "crash-freedom (no panic when a decoded value is used) is NOT a theorem: it is explored by structural JSON mutation, SSZ truncation/splices/word edits, fixed-size and arbitrary byte strings, followed by MessageRoot/Signature/Clone/MarshalJSON/MarshalSSZ/ToProto/SetSignature/Epoch/VerifyEth2SignedData/the real parsigex.NewEth2Verifier/parsigdb.StoreExternal (signed) and Clone/MarshalJSON/MarshalSSZ/ToProto/HashTreeRoot/dutydb.Store (unsigned), each under recover",
        "VersionedAggregatedAttestation is generated without validator index (its SSZ form, shape V, does not carry one)",
        "legacy (index-less) VersionedAttestation encodings are ambiguous with indexed ones when data.slot = F * 2^32 + 20 (F = 228 / 236, the fixed size of the attestation) and the aggregation bits have >= 9 bytes: such a value decodes as a different, indexed attestation (C14_envelope_roundtrip_Att_legacy_refuted_ambiguous; observed on the real code and recorded under documented_deviations). Slots >= 2^32 are treated as outside the domain of the lossless claim; random generation hits this with probability ~2^-64",
    ]
    R.proofs(extra_targets=["Codec/EnvelopeCorr.v"])

    replay = os.environ.get("VERIF_REPLAY")
    for old in glob.glob(os.path.join(vp.COQ, "gen", "cases_C14_*")):   # shards of earlier (larger) runs
        os.remove(old)
    rc, out, od = vp.go_harness("codec", timeout=1400)
    if rc != 0:
        R.broke("correspondence:harness codec failed to run", out[-3000:])
        R.finish()
    o = json.load(open(os.path.join(od, "codec_out.json")))
    for k in ("findings", "ecases", "dcases", "setcases", "deviations", "samples"):
        o[k] = o.get(k) or []

    if replay:
        rp = json.load(open(replay))
        key = rp.get("key", "replay")
        for f in o["findings"]:
            print("replayed: %s duty=%s signed=%s op=%s: %s" % (f["type"], f["duty"], f["signed"], f["op"], f["msg"][:160]))
        if o["findings"]:
            R.violation(key, "replayed input still panics / fails: " + "; ".join(sorted({f["type"] + "." + f["op"] for f in o["findings"]})), rp.get("replay", rp))
        R.coverage["evaluations"] = o["stats"].get("decode_attempts", 0)
        R.finish()

    st = o["stats"]
    ecs, dcs, scs = o["ecases"], o["dcases"], o["setcases"]

    # ---- model vs Go on the envelopes
    byid = {c["id"]: c for c in ecs}
    n_rej = 0
    for i, sh in enumerate(shard(ecs)):
        rc2, out2 = vp.coq_eval("C14_env_%d" % i, ecases_v(sh))
        if rc2 != 0:
            R.broke("correspondence:cases_C14_env_%d does not compile" % i, out2[-2000:])
            continue
        term = vp.parse_marked(out2, "mism")
        if term is None:
            R.broke("correspondence:no result printed by cases_C14_env_%d" % i, out2[-1000:])
            continue
        for cid, what in re.findall(r"\((\d+), (\d+)\)", term):
            c = byid[int(cid)]
            n_rej += 1
            if n_rej <= 8:
                R.broke("correspondence:envelope model %s Go on %s (shape %s, Go: %s)" % (
                    "outcome differs from" if what == "1" else "re-encoding differs from", c["label"], c["shape"], c["expect"]["kind"]),
                    json.dumps({"hex": c["hex"][:120], "expect": c["expect"]["kind"], "oracle": (c["oracle"] or [])[:4]}))
    # ---- dispatch
    dbyid = {c["id"]: c for c in dcs}
    for c in dcs:
        if c["expect"] == "PANIC":
            R.violation("C14:panic:decode:%s:%d" % ("signed" if c["signed"] else "unsigned", c["duty"]),
                        "a panic escaped the decode entry point (recover removed?) on input " + c["label"],
                        {"format": "bytes", "input": c["prefix"], "duty": c["duty"], "signed": c["signed"]})
    bad = []
    for i, sh in enumerate(vp.chunks(dcs, 4000)):
        rc2, out2 = vp.coq_eval("C14_disp_%d" % i, dcases_v(sh))
        if rc2 != 0:
            R.broke("correspondence:cases_C14_disp_%d does not compile" % i, out2[-2000:])
            continue
        bad += nums(vp.parse_marked(out2, "dmism"))
    # the model is the validating decoder (commit 83a4e02): Go must refuse exactly the inputs every candidate
    # decoder refuses, and those whose decoded value is not usable
    for cid in bad[:6]:
        c = dbyid[cid]
        R.broke("correspondence:dispatch model (validating decoder) differs from Go: duty %d %s input %s -> Go %r" % (
            c["duty"], "signed" if c["signed"] else "unsigned", c["label"], c["expect"] or "error"), json.dumps(c)[:1500])
    n_rej += len(bad)
    # ---- sets
    if scs:
        rc2, out2 = vp.coq_eval("C14_sets", setcases_v(scs))
        if rc2 != 0:
            R.broke("correspondence:cases_C14_sets does not compile", out2[-2000:])
        else:
            bad = nums(vp.parse_marked(out2, "smism"))
            for cid in bad[:4]:
                R.broke("correspondence:deterministic map-entry order on the wire is not the model's key order (case %d)" % cid, "")
            n_rej += len(bad)

    # ---- the real (unexported) hashProto of both packages on sets built in shuffled orders (go test -overlay)
    nh = 0
    for pkg, d, tag in (("core/consensus/qbft", "core_consensus_qbft", "qbft"), ("core/priority", "core_priority", "priority")):
        rc3, out3, od3 = vp.go_overlay_test(pkg, {"zz_verif_c14_test.go": os.path.join(vp.HARNESS, "overlay", d, "zz_verif_c14_test.go")},
                                            run="TestVerifC14HashProto", env_extra={"VERIF_N": 400 if R.thorough else 60})
        res = os.path.join(od3, "c14_hash_%s.json" % tag)
        if rc3 != 0 or not os.path.exists(res):
            R.broke("correspondence:overlay test of hashProto in %s failed to run" % pkg, out3[-2000:])
            continue
        hr = json.load(open(res))
        nh += hr["evaluations"]
        for df in (hr["diffs"] or [])[:1]:
            R.violation("C14:determinism:hashProto:" + tag, "hashProto of one unsigned data set built in different insertion orders gives different hashes",
                        {"package": pkg, "keys": df["keys"], "hashes": df["hashes"]})
        try:
            os.remove(res)
        except OSError:
            pass
    st["hashproto_evaluations"] = nh

    # ---- concrete findings of the harness
    # interleave the classes so that the (at most five) replay files written show every class found
    bycls = {}
    for f in o["findings"]:
        bycls.setdefault(f["class"], []).append(f)
    ordered = []
    while any(bycls.values()):
        for k in ("bigvalue", "panic", "roundtrip", "accept-roundtrip", "decode-panic"):
            if bycls.get(k):
                ordered.append(bycls[k].pop(0))
    for f in ordered:
        rep = {"key": f["key"], "format": f["format"], "input": f["input"], "duty": f["duty"], "signed": f["signed"],
               "class": f["class"], "type": f["type"], "op": f.get("op", ""), "msg": f["msg"],
               "how": "./check C14 --replay <this file> feeds the input to ParSignedDataFromProto / UnsignedDataSetFromProto under every duty type and applies the post-decode operations"}
        if f["class"] == "roundtrip":
            what = "%s does not survive %s: %s" % (f.get("entry") or f["type"], f["op"], f["msg"])
        elif f["class"] == "bigvalue":
            what = "large valid value %s sent through the real parsigex component / p2p framing with default options: %s" % (f["input"], f["msg"][:200])
        elif f["class"] == "accept-roundtrip":
            what = "%s accepted from %s (%s %s) does not survive re-encoding (%s): %s" % (f["type"], f["format"], f.get("kind", ""), f.get("path", ""), f["op"], f["msg"][:160])
        elif f["class"] == "decode-panic":
            what = "panic inside %s on %s input" % (f["op"], f["format"])
        else:
            what = "%s decoded from %s (%s %s) without error, then %s panics: %s" % (
                f["type"], f["format"], f.get("kind", ""), f.get("path", ""), f["op"], f["msg"][:120])
        R.violation(f["key"], what, rep)

    R.coverage["evaluations"] = len(ecs) + len(dcs) + len(scs) + st.get("decode_attempts", 0) + sum(v for k, v in st.items() if k.startswith("roundtrip_"))
    labels = {re.sub(r"\d+", "#", c["label"].split(":", 1)[1]) + "/" + c["shape"] + "/" + c["expect"]["kind"] for c in ecs}
    R.coverage["distinct_nontrivial"] = len(labels) + len({(c["duty"], c["signed"], c["expect"]) for c in dcs if c["expect"]})
    R.coverage["rule"] = ("envelope cases: distinct (mutation template, shape, Go outcome class) triples among real SSZ encodings of every enveloped core type x fork version "
                          "and their truncations / offset, version, flag, index edits / gap insertions / splices / random strings, each compared with the Coq model's outcome, decoded header fields, payload boundary and re-encoding; "
                          "dispatch cases: distinct (duty type, signed/unsigned, resulting Go type) among every encoding (SSZ, JSON, JSON with leading white space, literals, fixed-size random strings) decoded under every duty type; "
                          "non-trivial = Go accepted the input, or refused it after the length check")
    R.coverage["input_distribution"] = {"stats": st,
                                        "envelope_by_shape": {s: sum(1 for c in ecs if c["shape"] == s) for s in SHAPE},
                                        "envelope_by_outcome": {k: sum(1 for c in ecs if c["expect"]["kind"] == k) for k in ("ok", "okA", "err", "panic")},
                                        "dispatch_accepted": sum(1 for c in dcs if c["expect"]),
                                        "model_mismatches": n_rej,
                                        "exploration_findings_by_class": {k: sum(1 for f in o["findings"] if f["class"] == k) for k in ("bigvalue", "panic", "roundtrip", "accept-roundtrip", "decode-panic")}}
    R.coverage["exploration"] = {"label": "exploration, not proof: crash-freedom half",
                                 "json_mutants": st.get("json_mutants", 0), "ssz_mutants": st.get("ssz_mutants", 0),
                                 "arbitrary_inputs": st.get("arbitrary_inputs", 0) + st.get("fixed_size_inputs", 0),
                                 "values_reaching_post_decode_ops": st.get("post_decode_signed_values", 0) + st.get("post_decode_unsigned_values", 0),
                                 "distinct_panic_keys": sum(1 for f in o["findings"] if f["class"] == "panic")}
    R.coverage["ssz_first_bytes"] = {"note": "leading bytes (hex) that a value's own SSZ encoding can / cannot have, per Go type; values with every reachable one are round-tripped and dispatched (the unmarshal rule looks at the first non-space byte)",
                                     "per_type": o.get("first_bytes") or {}}
    if o.get("deviations"):
        R.coverage["documented_deviations"] = o["deviations"]
        R.notes.append("wire-format ambiguity observed on the real code (not counted as a violation, slots >= 2^32 are outside the modelled domain): " + "; ".join(d["what"] for d in o["deviations"][:2]))
    R.add_samples(o.get("samples", []))
    R.coverage["traces_validated_against_impl"] = len(ecs) + len(dcs) + len(scs)
    R.finish()
