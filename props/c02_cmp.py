"""C02 with compare failures: theorems in coq/Properties/C02_cmp.v (agreement of Qbft/Net.v when the verdict of a
completed comparison is a function of (member, value); negative result for the weaker hypothesis); correspondence =
cluster executions of the real core/qbft.Run with such a Compare and scripted Byzantine members exploiting the
compareFailureRound+1 shortcut (harness/qbft TestCmpFun), replayed by nrun (Qbft/Net.v), checked for consistency of the
verdicts (trace_cmp_fun_b) and for agreement.

run(R) is called by props/C02.py with the vp.Result of the C02 check (it does not call R.finish());
props/C02_cmp.py runs it alone under the scratch id C02_cmp."""
import json
import os
from concurrent.futures import ThreadPoolExecutor

import vp
import qbft_engine as qe

HEADER = """From Coq Require Import List NArith Arith Bool.
From Charon Require Import Common.Quorum Qbft.Model Qbft.Monitor Qbft.Net Qbft.Corr Qbft.CmpInv Qbft.AgreementCmp.
Import ListNotations.
Local Open Scope nat_scope.
"""


def case_term(h):
    return "(mkcase %d %d %d %d [] true [%s] [\n  %s])" % (
        h["id"], h["nodes"], h["fifo"], h["off"], "; ".join(str(x) for x in (h.get("byz") or [])), ";\n  ".join(h["trace"]))


def cases_v(hs):
    return HEADER + "Definition cases : list case := [\n" + ";\n".join(case_term(h) for h in hs) + "\n].\n" + """
Definition rejects := Eval vm_compute in all_rejects cases.
Definition net_hits := Eval vm_compute in all_net cases.
Definition c02_hits := Eval vm_compute in all_c02 cases.
Definition incons := Eval vm_compute in flat_map (fun c => if trace_cmp_fun_b (c_trace c) then [] else [c_id c]) cases.
Definition nfail := Eval vm_compute in
  flat_map (fun c => if existsb (fun e => match consulted (snd e) with Some (_, CmpFail) => true | _ => false end) (c_trace c)
                     then [c_id c] else []) cases.
Definition c03_hits := Eval vm_compute in all_c03 cases.
(* decide_leader_proposed on the observed execution: somebody received PRE-PREPARE(r, v) from the leader of round r *)
Definition lp_bad := Eval vm_compute in
  flat_map (fun c => flat_map (fun d => match snd d with (v, r, _) =>
     if existsb (fun e => match snd e with
                          | LRecv m _ _ => is_ty PrePrepare (main m) && (rnd (main m) =? r) && N.eqb (val (main m)) v
                                           && (src (main m) =? lead_rr (c_off c) (c_nodes c) r)
                          | _ => false end) (c_trace c)
     then [] else [(c_id c, fst d)] end) (all_decides (c_trace c))) cases.
(* validity_no_byz on the observed execution: without Byzantine members a decided value is some member's Input *)
Definition val_bad := Eval vm_compute in
  flat_map (fun c => match c_byz c with
     | [] => flat_map (fun d => match snd d with (v, _, _) =>
               if existsb (fun e => match snd e with LInput w _ => N.eqb w v | _ => false end) (c_trace c)
               then [] else [(c_id c, fst d)] end) (all_decides (c_trace c))
     | _ => [] end) cases.
Print rejects.
Print net_hits.
Print c02_hits.
Print incons.
Print nfail.
Print c03_hits.
Print lp_bad.
Print val_bad.
"""


def merge_proofs(R, pid, key):
    """Result.proofs() overwrites the theorem list / checker_cmd / coqchk of the calling check: keep both."""
    cov = R.coverage
    prev = {k: cov.get(k) for k in ("theorems", "checker_cmd", "coqchk")}
    R.proofs(pid=pid, extra_targets=["Qbft/Corr.v"])
    cov[key + "_theorems"] = cov.get("theorems") or []
    cov["theorems"] = (prev["theorems"] or []) + [t for t in cov[key + "_theorems"] if t not in (prev["theorems"] or [])]
    if prev["checker_cmd"] and prev["checker_cmd"] != cov.get("checker_cmd"):
        cov["checker_cmd"] = prev["checker_cmd"] + "; " + cov.get("checker_cmd", "")
    if "coqchk" in cov and prev["coqchk"] and prev["coqchk"] != cov["coqchk"]:
        cov[key + "_coqchk"] = cov["coqchk"]
        cov["coqchk"] = prev["coqchk"]


_CACHE = {}


def observe(R):
    """Run harness/qbft TestCmpFun (or replay a cmpfun/cmpany event list) against the real qbft.Run and evaluate model
    acceptance and the C02/C03 monitors.  Returns None if a replay file is not for this harness."""
    if R.pid in _CACHE:
        return _CACHE[R.pid]
    replay = os.environ.get("VERIF_REPLAY")
    env = {"VERIF_N": 3000 if R.thorough else 250}
    run_name, out_name = "TestCmpFun", "qbft_cmpfun.json"
    if replay:
        try:
            j = json.load(open(replay))
            j = j.get("replay", j)
            mine = isinstance(j, dict) and isinstance(j.get("events"), list) and str(j.get("kind", "")).startswith("cmp")
        except (OSError, ValueError):
            mine = False
        if not mine:
            _CACHE[R.pid] = None
            return None
        env["VERIF_REPLAY"] = replay
        run_name, out_name = "TestGen", "qbft_traces.json"
    res = {"replay": bool(replay), "hs": [], "byid": {}, "broke": [], "rejects": [], "net": [], "c02": [], "incons": [], "nfail": [],
           "c03": [], "lp": [], "vb": []}
    _CACHE[R.pid] = res
    rc, out, od = vp.go_harness("qbft", run=run_name, env_extra=env, outdir=os.path.join(vp.WORK, "qbft_cmpfun_%s" % R.pid))
    if rc != 0:
        res["broke"].append(("correspondence:harness qbft %s failed to run" % run_name, out[-3000:]))
        return res
    hs = json.load(open(os.path.join(od, out_name)))
    res["hs"], res["byid"] = hs, {h["id"]: h for h in hs}
    for h in hs:
        if h.get("unmodelled"):
            res["broke"].append(("correspondence:qbft.Run returned an error the model has no label for (cmp history %d): %s" % (h["id"], h["unmodelled"]),
                                 json.dumps(qe.replay_obj(h))[:6000]))
    jobs = [("qbft_cmpfun_%s_%d" % (R.pid, i), cases_v(s)) for i, s in enumerate(vp.chunks(hs, 25))]
    with ThreadPoolExecutor(max_workers=max(2, vp.NPROC - 2)) as ex:
        outs = list(ex.map(lambda jb: vp.coq_eval(jb[0], jb[1]), jobs))
    for (name, _), (rc, o) in zip(jobs, outs):
        if rc != 0:
            res["broke"].append(("correspondence:gen/cases_%s.v does not compile" % name, o[-3000:]))
            continue
        res["rejects"] += qe.nums(vp.parse_marked(o, "rejects"))
        res["net"] += qe.nums(vp.parse_marked(o, "net_hits"))
        for key, mark in (("c02", "c02_hits"), ("incons", "incons"), ("nfail", "nfail")):
            res[key] += [x[0] for x in qe.nums(vp.parse_marked(o, mark))]
        res["c03"] += qe.nums(vp.parse_marked(o, "c03_hits"))
        res["lp"] += qe.nums(vp.parse_marked(o, "lp_bad"))
        res["vb"] += qe.nums(vp.parse_marked(o, "val_bad"))
    return res


def report_correspondence(R, res, hit):
    """Harness / model-acceptance failures (common to the C02 and C03 parts)."""
    for name, detail in res["broke"]:
        R.broke(name, detail)
    byid = res["byid"]
    for cid, pid, k in res["rejects"]:
        if cid in hit:
            continue
        h = byid[cid]
        gi = qe.own_label_index(h, pid, k)
        R.broke("correspondence:Qbft model rejects observed label %d of process %d in history %d (%s)" % (k, pid, cid, h["kind"]),
                json.dumps({"label": (h["trace"][gi] if gi is not None else "?")[:1500], "replay": qe.replay_obj(h, gi)})[:6000])
    rej_ids = {x[0] for x in res["rejects"]}
    for cid, gi in res["net"]:
        if cid in rej_ids or cid in hit:
            continue
        h = byid[cid]
        R.broke("correspondence:Qbft/Net.v refuses global step %d of history %d (%s)" % (gi, cid, h["kind"]),
                json.dumps({"step": h["trace"][gi][:1500], "replay": qe.replay_obj(h, gi)})[:6000])


def coverage(R, res, key):
    cov = R.coverage
    hs = res["hs"]
    stats, seen, kinds = {}, set(), {}
    for h in hs:
        kinds[h["kind"]] = kinds.get(h["kind"], 0) + 1
        for k, v in (h.get("stats") or {}).items():
            stats[k] = stats.get(k, 0) + v
        if h["id"] in res["nfail"]:
            seen.add(vp.digest(h["events"]))
    has_dec = lambda h: any("Decide " in t for t in h["trace"])
    cov["evaluations"] += len(hs)
    cov["distinct_nontrivial"] += len(seen)
    cov[key + "_evaluations"] = len(hs)
    cov[key + "_distinct_nontrivial"] = len(seen)
    cov[key + "_rule"] = (
        "cluster executions of the real core/qbft.Run under a random scheduler. cmpfun-byz: n = 4..7, f scripted Byzantine members, Definition.Compare answers a random fixed "
        "function of (member, value) (reject rate 10-45%, 4% CmpTimeout); the adversary echoes every honest vote, sends null ROUND-CHANGEs and proposes arbitrary values "
        "without / with a null justification in every round a Byzantine member leads that is current, next, or compareFailureRound+1 of some honest member. cmpany-honest: n = 1..7, "
        "nobody Byzantine, verdicts arbitrary (60% ok / 20% fail / 20% timeout, not a function of anything). Plus the two scripted scenarios of Qbft/CmpExamples.v / ValidityCmp.v. "
        "Each execution is replayed by nrun (Qbft/Net.v) and per process by step (trace inclusion); non-trivial = at least one consulted comparison failed; distinct by hash of the injected events")
    dist = {"kinds": kinds, "with_compare_failure": len(res["nfail"]), "with_decision": sum(1 for h in hs if has_dec(h)),
            "with_shortcut_accept_and_decision": sum(1 for h in hs if (h.get("stats") or {}).get("cmpfun:shortcut-accept") and has_dec(h)),
            "observed": {k: v for k, v in sorted(stats.items()) if k.startswith(("cmpfun:", "compare:", "rule:", "out:Decide", "out:Unjust"))}}
    cov[key + "_input_distribution"] = dist
    if isinstance(cov.get("input_distribution"), dict):
        cov["input_distribution"][key] = dist
    elif not cov.get("input_distribution"):
        cov["input_distribution"] = {key: dist}
    if not cov.get("rule"):
        cov["rule"] = cov[key + "_rule"]
    cov[key + "_traces_validated_against_impl"] = len(hs)
    ex = next((h for h in hs if h["kind"] == "cmpfun-shortcut"), None)
    if ex:
        R.add_samples([{"kind": ex["kind"], "nodes": ex["nodes"], "byz": ex.get("byz"), "labels": ex["trace"][26:31]}], limit=1)


def run(R):
    R.assumptions += [
        "cmp: agreement with compare failures is proved under the hypothesis that the verdict of a completed Definition.Compare is a fixed function of (member, proposed value) (CmpFail only where it rejects, CmpOk only where it accepts; CmpTimeout unrestricted); that the wrapper's Compare under feature chain_split_halt satisfies it is NOT proved (DESIGN.md S1)",
        "cmp: constraining only CmpFail (DESIGN.md's literal wording, CmpOk unrestricted) is refuted: Properties/C02_cmp.v C02_cmp_refuted_if_cmpok_unrestricted",
    ]
    merge_proofs(R, "C02_cmp", "cmp")
    res = observe(R)
    if res is None:
        return
    byid = res["byid"]
    hit = set()
    for cid in res["c02"]:
        h = byid[cid]
        if not h["kind"].startswith("cmpfun") or cid in res["incons"]:
            R.notes.append("cmp: history %d (%s) has two different decisions but its Compare verdicts are not a function of (member, value): outside the hypothesis" % (cid, h["kind"]))
            continue
        hit.add(cid)
        R.violation("agreement:cmp-fun-two-decides-differ",
                    "two Decide callbacks of history %d (%s, n=%d, Byzantine %s) carry different values although every completed comparison answered a function of (member, value)"
                    % (cid, h["kind"], h["nodes"], h.get("byz")), qe.replay_obj(h))
    for cid in res["incons"]:
        if not res["replay"] and byid[cid]["kind"].startswith("cmpfun"):
            R.broke("correspondence:harness TestCmpFun produced verdicts that are not a function of (member, value) in history %d" % cid,
                    json.dumps(qe.replay_obj(byid[cid]))[:6000])
    report_correspondence(R, res, hit)
    coverage(R, res, "cmp")
