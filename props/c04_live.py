"""Termination half of C04 at model level: theorems in coq/Properties/C04_live.v about the closed
synchronous-round system of coq/Qbft/GoodRound.v built on the validated single-process model
Qbft/Model.v (good_round_decides for all n >= 1 and all delivery orders, rotation_bound, the
leader-side lemma qrc_forced, non-vacuity instances evaluated by vm_compute).

Proof-only part: the tie to the Go code is the trace-inclusion check of the single-process model
done by props/C04.py (harness/qbft); nothing here runs Go.

run(R) is called by props/C04.py with the vp.Result of the C04 check (it does not call R.finish());
props/C04_live.py runs it alone under the scratch id C04_live."""
import vp

ASSUMPTIONS = [
    "live: good_round_decides is a theorem about the closed system of Qbft/GoodRound.v (processes of R step with "
    "Model.fstep on pool messages, Compare = ok, no timer fires, nobody outside R moves); fairness is the terminal "
    "condition delivered_all (every pool message delivered to every process of R at least once), not a scheduler",
    "live: hypotheses are closure conditions on the initial pool and buffers (pool_ok: nothing of a higher round, one "
    "value per round r, quoted PREPARE/COMMIT(r) also in flight; pool_fresh while the leader has not proposed: no "
    "value of round r yet, well-formed PREPAREs, no ROUND-CHANGE(r) quoted inside another message, one (pr,pv) per "
    "source; start_ok / leader_ok: what a process already did in round r is in the pool, leader has its input, never "
    "had a Compare failure, empty justification cache before QRC). They hold when every message was produced by "
    "the protocol (crash faults only); they are stated, not derived from a global reachability predicate",
    "live: FIFO bound actually needed: for every process i of R and source s, (messages of s buffered by i at the "
    "start of the window) + (deliveries from s to i in the window) <= FIFOLimit (fifo_ok); no Input event inside the "
    "window (the leader already has its input); Compare failures excluded",
    "live: the real-time bridge (latency < timeout/3 => all messages of the round are delivered before a timer of R "
    "fires) is NOT proved; rotation_bound + good_round_decides give 'at most one rotation' only together with it",
]


def run(R):
    cov = R.coverage
    R.assumptions += ASSUMPTIONS
    # Result.proofs() overwrites the theorem list / checker_cmd / coqchk of the calling check: keep both
    prev = {k: cov.get(k) for k in ("theorems", "checker_cmd", "coqchk")}
    ok = R.proofs(pid="C04_live")
    cov["live_theorems"] = cov.get("theorems") or []
    cov["theorems"] = (prev["theorems"] or []) + [t for t in cov["live_theorems"] if t not in (prev["theorems"] or [])]
    if prev["checker_cmd"] and prev["checker_cmd"] != cov.get("checker_cmd"):
        cov["checker_cmd"] = prev["checker_cmd"] + "; " + cov.get("checker_cmd", "")
    if "coqchk" in cov and prev["coqchk"] and prev["coqchk"] != cov["coqchk"]:
        cov["live_coqchk"] = cov["coqchk"]
        cov["coqchk"] = prev["coqchk"]
    cov["live_examples"] = ("n=4, one crashed (vm_compute, Qbft/GoodRoundEx.v): round 1 (23 deliveries, duplicates); round 2 after "
                            "a timeout, null round changes (32 deliveries); round 2 re-proposing a value prepared in round 1 with "
                            "stale round-1 messages in the pool (46 shuffled deliveries, leader's own input differs): all three "
                            "running processes decide, hypotheses of the theorems discharged; FIFOLimit=1 refutation of the "
                            "statement without fifo_ok")
    # network part (closure hypotheses derived from reachability in Net.v): props/c04_live_net.py
    try:
        import c04_live_net
    except ImportError:
        c04_live_net = None
        R.notes.append("network part of the termination proof (props/c04_live_net.py) not present in this tree")
    if c04_live_net is not None:
        ok = c04_live_net.run(R) and ok
    return ok
