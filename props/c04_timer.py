"""Round-timer part of C04: theorems in coq/Properties/C04_timer.v about the model coq/Qbft/Timer.v;
correspondence = trace inclusion of the Timer(round) call histories recorded from the real timers of
core/consensus/timer under a fake clock (harness/timer).

run(R) is called by props/C04.py with the vp.Result of the C04 check (it does not call R.finish());
props/C04_timer.py runs it alone under the scratch id C04_timer."""
import concurrent.futures
import json
import os
import re
import time

import vp

KIND = {"inc": "KInc", "eager_dlinear": "KEager", "linear": "KLinear"}
CTOR_KIND = {"inc": "KInc", "inc_noduty": "KInc", "linear": "KLinear", "linear_noduty": "KLinear",
             "eager_dlinear": "KEager", "eager_noduty": "KEager"}


def z(v):
    """Z literal through a primitive 63-bit integer (P n = n, M n = -n): the case files hold ~10^5
    numbers of up to 62 bits and binary-positive literals make coqc spend most of a minute on them.
    Primitive integers appear only in the evaluation files, never under a theorem."""
    if abs(v) >= 2 ** 62:
        return "(%d)" % v   # plain Z literal
    return "(M %d)" % -v if v < 0 else "(P %d)" % v


def b(v):
    return "true" if v else "false"


def oz(v):
    return "None" if v is None else "(Some %s)" % z(v)


def cfg_term(c):
    """Model configuration of one history.  The kind is the constructor's for via=ctor and
    select_kind(flags, duty type) for the production path; timers built without a duty have the
    zero duty (type 0, slot 0) and neither genesis nor slot duration."""
    if c["via"] == "func":
        kind = "(select_kind (mkFlags %s %s %s) %s)" % (b(c["linear"]), b(c["eager"]), b(c["proposal"]), z(c["dtype"]))
    else:
        kind = CTOR_KIND[c["ctor"]]
    return "(mkCfg %s %s %s %s %s %s)" % (kind, z(c["dtype"]), z(c["slot"]), oz(c.get("genesis")), z(c["slotdur"]), b(c["proposal"]))


def label_term(r):
    """LS/LN/NS/NN r now |dur| [fire] until  abbreviate  LReq r now (+-dur) (Some fire | None) until
    (definitions at the top of the generated file); anything unusual is written out in full."""
    fire = r.get("fire")
    if r["round"] >= 0 and r["now"] >= 0 and r["until"] >= 0 and (fire is None or fire >= 0) \
            and max(r["round"], r["now"], abs(r["dur"]), r["until"], fire or 0) < 2 ** 62:
        head = ("N" if r["dur"] < 0 else "L") + ("N" if fire is None else "S")
        args = [r["round"], r["now"], abs(r["dur"])] + ([] if fire is None else [fire]) + [r["until"]]
        return head + " " + " ".join("%d" % a for a in args)
    return "LReq %s %s %s %s %s" % (z(r["round"]), z(r["now"]), z(r["dur"]), oz(fire), z(r["until"]))


def cases_v(hs, sels, default_kind, default_prop):
    rows = []
    for h in hs:
        ok = KIND.get(h["cfg"]["kind"], "KInc")
        rows.append("(%d%%nat, %s, %s, [%s])" % (h["id"], cfg_term(h["cfg"]), ok, "; ".join(label_term(r) for r in h["reqs"])))
    srows = ["(%d%%nat, mkFlags %s %s %s, %s, %s, %s)" % (i, b(s["linear"]), b(s["eager"]), b(s["proposal"]), z(s["dtype"]),
                                                      KIND.get(s["kind"], "KInc"), b(s["eager_fn"]))
             for i, s in enumerate(sels)]
    return """From Coq Require Import List ZArith Bool Uint63.
From Charon Require Import Qbft.Timer.
Import ListNotations.
Local Open Scope Z_scope.
Definition P (i : int) : Z := Uint63.to_Z i.
Definition M (i : int) : Z := - Uint63.to_Z i.
Arguments P i%%uint63_scope.
Arguments M i%%uint63_scope.
Definition LS (r now dur fire until : int) := LReq (P r) (P now) (P dur) (Some (P fire)) (P until).
Definition LN (r now dur until : int) := LReq (P r) (P now) (P dur) None (P until).
Definition NS (r now dur fire until : int) := LReq (P r) (P now) (M dur) (Some (P fire)) (P until).
Definition NN (r now dur until : int) := LReq (P r) (P now) (M dur) None (P until).
Arguments LS (r now dur fire until)%%uint63_scope.
Arguments LN (r now dur until)%%uint63_scope.
Arguments NS (r now dur fire until)%%uint63_scope.
Arguments NN (r now dur until)%%uint63_scope.
(* each case: id, model configuration, kind reported by Type(), observed Timer(round) history *)
Definition cases : list (nat * cfg * kind * list label) := [
%s
].
Definition sels : list (nat * flags * Z * kind * bool) := [
%s
].
Definition rejects := Eval vm_compute in
  flat_map (fun c => match c with (id, cf, _, ls) => match first_reject cf init ls 0 with Some i => [(id, i)] | None => [] end end) cases.
Definition monitor_hits := Eval vm_compute in
  flat_map (fun c => match c with (id, cf, _, ls) => match first_violation cf [] ls 0 with Some i => [(id, i)] | None => [] end end) cases.
Definition kind_mismatch := Eval vm_compute in
  flat_map (fun c => match c with (id, cf, k, _) => if kind_eqb (c_kind cf) k then [] else [(id, 0%%nat)] end) cases.
Definition sel_mismatch := Eval vm_compute in
  flat_map (fun s => match s with (id, fl, dt, k, e) =>
     if kind_eqb (select_kind fl dt) k && Bool.eqb e (kind_eqb k KEager) then [] else [(id, 0%%nat)] end) sels.
(* the feature set the binary starts with selects the eager timer with the proposal variant *)
Definition default_ok := Eval vm_compute in
  (kind_eqb (select_kind default_flags DutyAttester) %s && Bool.eqb (f_proposal default_flags) %s).
Print rejects.
Print monitor_hits.
Print kind_mismatch.
Print sel_mismatch.
Print default_ok.
""" % (";\n".join(rows), ";\n".join(srows), KIND.get(default_kind, "KInc"), b(default_prop))


def pairs(term):
    return [(int(a), int(c)) for a, c in re.findall(r"\((\d+)%?n?a?t?, (\d+)%?n?a?t?\)", term or "")]


WIRE_OVERLAY = {"zz_verif_timerwire_test.go": os.path.join(vp.HARNESS, "overlay", "core_consensus_qbft", "zz_verif_timerwire_test.go")}


def wire_cases_v(rows):
    return """From Coq Require Import List ZArith Bool Uint63.
From Charon Require Import Qbft.Timer.
Import ListNotations.
Local Open Scope Z_scope.
Definition P (i : int) : Z := Uint63.to_Z i.
Definition M (i : int) : Z := - Uint63.to_Z i.
Arguments P i%%uint63_scope.
Arguments M i%%uint63_scope.
(* each case: id, configuration of the ONE timer object the instance must behave as, kind reported by
   Type(), the NewTimer(round) calls seen between runInstance and qbft.Run *)
Definition cases : list (nat * cfg * kind * list obs) := [
%s
].
Definition wire_rejects := Eval vm_compute in
  flat_map (fun c => match c with (id, cf, _, os) => match first_reject_obs cf init os 0 with Some i => [(id, i)] | None => [] end end) cases.
Definition wire_kind_mismatch := Eval vm_compute in
  flat_map (fun c => match c with (id, cf, k, _) => if kind_eqb (c_kind cf) k then [] else [(id, 0%%nat)] end) cases.
Print wire_rejects.
Print wire_kind_mismatch.
""" % ";\n".join(rows)


def run_wire(R, only=None):
    """Wrapper-level correspondence: the real runInstance of core/consensus/qbft (in-package overlay test,
    synctest) with the real GetRoundTimerFunc; per instance the observed NewTimer(round) calls must be
    those of ONE timer object of the model."""
    cov = R.coverage
    env = {"VERIF_WIRE_ONLY": only} if only else {}
    rc, out, od = vp.go_overlay_test("core/consensus/qbft", WIRE_OVERLAY, run="TestVerifTimerWire$", env_extra=env,
                                     outdir=os.path.join(vp.WORK, "ov_timerwire_" + R.pid), timeout=900)
    if rc != 0:
        R.broke("correspondence:overlay test TestVerifTimerWire failed to run", out[-3000:])
        return
    scs = json.load(open(os.path.join(od, "timerwire.json")))
    rows, index = [], []
    ncalls = 0
    for sc in scs:
        base = {"linear": sc["linear"], "eager": sc["eager"], "proposal": sc["proposal"], "dtype": sc["dtype"], "slot": sc["slot"],
                "genesis": sc["genesis"], "slotdur": sc["slotdur"], "via": "func"}
        rep = {"wire_scenario": sc["name"], "scenario": {k: v for k, v in sc.items() if k != "nodes"},
               "how": "./check C04_timer --replay <this file> re-runs this scenario of TestVerifTimerWire (overlay test in core/consensus/qbft) against /repo"}
        for pr in sc.get("problems") or []:
            R.notes.append("timer wire %s: %s" % (sc["name"], pr))
        for nd in sc["nodes"]:
            calls = nd.get("calls") or []
            ncalls += len(calls)
            if not calls:
                R.broke("correspondence:timer wire: no Timer(round) call observed through Consensus.timerFunc for node %d in %s" % (nd["node"], sc["name"]), json.dumps(rep)[:2000])
                continue
            obs = "; ".join("Obs %s %s %s %s" % (z(c["round"]), z(c["now"]), oz(c.get("fire")), z(c["until"])) for c in calls)
            rows.append("(%d%%nat, %s, %s, [%s])" % (len(index), cfg_term(base), KIND.get(nd["kind"], "KInc"), obs))
            index.append((sc, nd, rep))
            # termination under timely delivery, observed directly: default-style (eager) timers, 300 ms latency,
            # silent round-1 leader: every running member decides within one rotation (rounds 1..5)
            if sc["mode"] == "latency" and nd["kind"] == "eager_dlinear":
                d = nd.get("decided_at")
                if d is None or d > sc["start_guess"] + 6 * 10 ** 9:
                    R.violation("timer:wire-undecided",
                                "member %d did not decide within one leader rotation (6 s after the duty start) in %s: decided_at=%s ns, %d timer objects used, calls %s"
                                % (nd["node"], sc["name"], d, nd.get("objects", 0), [(c["round"], c["now"], c.get("fire")) for c in calls][:12]),
                                dict(rep, node=nd["node"], calls=calls))
    cov["evaluations"] += len(index)
    cov["distinct_nontrivial"] += len({vp.digest([i[0]["name"], i[1]["calls"]]) for i in index if len({c["round"] for c in i[1]["calls"]}) < len(i[1]["calls"])})
    cov["timer_wire_instances"] = len(index)
    cov["timer_wire_scenarios"] = len(scs)
    cov["timer_wire_calls"] = ncalls
    cov["timer_wire_rule"] = ("real runInstance (Propose / ProposePriority) of 3 running members of a 4-member cluster, silent round-1 leader, real GetRoundTimerFunc with genesis + 12 s slots, "
                              "5 flag combinations x {attester, proposer, aggregator} x {300 ms latency; 300 ms latency with round-2 PREPARE/COMMIT lost}, synctest virtual time; "
                              "per instance the (round, now, firing instant, stopped-at) of every Timer call reaching core/qbft.Run must be produced by ONE model timer object; "
                              "eager timers under plain latency must decide within one rotation")
    if not rows:
        return
    rc, out = vp.coq_eval("%s_timerwire" % R.pid, wire_cases_v(rows))
    if rc != 0:
        R.broke("correspondence:cases_timerwire does not compile", out[-3000:])
        return
    for cid, idx in pairs(vp.parse_marked(out, "wire_rejects")):
        sc, nd, rep = index[cid]
        calls = nd["calls"]
        c = calls[idx] if idx < len(calls) else {}
        R.violation("timer:wire",
                    "the round timers handed to core/qbft.Run by runInstance do not behave as one %s timer object: member %d in %s, call %d = Timer(%s) at %s ns fired at %s (watched until %s ns); %d timer objects served the instance's calls"
                    % (nd["kind"], nd["node"], sc["name"], idx, c.get("round"), c.get("now"), c.get("fire"), c.get("until"), len({x["obj"] for x in calls})),
                    dict(rep, node=nd["node"], index=idx, calls=calls))
    for cid, _ in pairs(vp.parse_marked(out, "wire_kind_mismatch")):
        sc, nd, rep = index[cid]
        R.violation("timer:wire-kind", "runInstance of %s runs a %s timer; the model selects another kind for these flags and duty type" % (sc["name"], nd["kind"]), dict(rep, node=nd["node"]))


def run(R):
    t0 = time.time()
    cov = R.coverage
    R.assumptions += [
        "timer: int64 overflow of time.Duration arithmetic is not modelled (rounds <= 2^31, instants within +-2^62 ns)",
        "timer: the clock readings inside one Timer(round) call are one instant (true under the fake clock; nanoseconds apart under the real one), and calls on one timer are sequential (the Go code serialises them with a mutex)",
        "timer: a clock timer created with a duration <= 0 fires at once (time.NewTimer and the clockwork fake clock agree); the real clock itself is not exercised",
        "timer: the real-time bridge of C04 (latency < timeout/3, start offsets < one round, goroutine scheduling => hypothesis of good_round_decides) is NOT proved; Properties/C04_timer.v holds only the timer arithmetic such a bridge would use",
    ]
    # Result.proofs() overwrites the theorem list / checker_cmd / coqchk of the calling check: keep both
    prev = {k: cov.get(k) for k in ("theorems", "checker_cmd", "coqchk")}
    R.proofs(pid="C04_timer")
    cov["timer_theorems"] = cov.get("theorems") or []
    cov["theorems"] = (prev["theorems"] or []) + [t for t in cov["timer_theorems"] if t not in (prev["theorems"] or [])]
    if prev["checker_cmd"] and prev["checker_cmd"] != cov.get("checker_cmd"):
        cov["checker_cmd"] = prev["checker_cmd"] + "; " + cov.get("checker_cmd", "")
    if "coqchk" in cov and prev["coqchk"] and prev["coqchk"] != cov["coqchk"]:
        cov["timer_coqchk"] = cov["coqchk"]
        cov["coqchk"] = prev["coqchk"]
    n = 4000 if R.thorough else 600
    env = {"VERIF_N": n}
    rp = os.environ.get("VERIF_REPLAY")
    wire_only = None
    if rp:
        try:
            j = json.load(open(rp))
            j = j.get("replay", j)
            if isinstance(j, dict) and j.get("wire_scenario"):
                wire_only = j["wire_scenario"]
        except (OSError, ValueError):
            pass
    tw = time.time()
    run_wire(R, wire_only)
    cov["timer_wire_wall_s"] = round(time.time() - tw, 1)
    if rp:
        # only replay files produced by this part (cfg + script of a timer history) are for this harness
        try:
            j = json.load(open(rp))
            j = j.get("replay", j)
            mine = isinstance(j, dict) and isinstance(j.get("cfg"), dict) and "via" in j["cfg"] and "script" in j
        except (OSError, ValueError):
            mine = False
        if not mine:
            env["VERIF_REPLAY"] = ""
    rc, out, od = vp.go_harness("timer", env_extra=env, outdir=os.path.join(vp.WORK, "timer_" + R.pid))
    if rc != 0:
        R.broke("correspondence:harness timer failed to run", out[-3000:])
        return
    o = json.load(open(os.path.join(od, "timer_traces.json")))
    hs_all = o["histories"]
    for h in hs_all:
        h["reqs"] = h.get("reqs") or []
    skipped = [h for h in hs_all if h.get("note")]
    hs = [h for h in hs_all if not h.get("note")]
    sels = o.get("selection") or []
    nlabels = sum(len(h["reqs"]) for h in hs)
    seen = set()
    for h in hs:
        if h.get("nontrivial"):
            seen.add(vp.digest([h["cfg"], h["reqs"]]))
    cov["evaluations"] += len(hs) + len(sels)
    cov["distinct_nontrivial"] += len(seen)
    cov["timer_evaluations"] = len(hs)
    cov["timer_distinct_nontrivial"] = len(seen)
    cov["timer_selection_cases"] = len(sels)
    cov["timer_labels_total"] = nlabels
    cov["timer_func_path_skipped"] = len(skipped)
    cov["timer_rule"] = ("Timer(round) call histories against the real round timers (increasing, eager double linear, linear) under a recording fake clock: "
                         "templates corpus (the repo's own test scenarios, re-alignment), sweep (rounds 1..64, 100, 1000, 65536, 2^31; first, second and third requests; every duty type x proposal_timeout on/off), "
                         "walk (timer-driven process as qbft.Run: request, optional second request, wait for the firing, next round / jump), random, edge (requests at deadline-1ns, deadline, deadline+1ns; rounds 0 and -1); "
                         "timers built by the exported WithClock constructors and by GetRoundTimerFunc (all 8 flag combinations; clock field re-pointed by reflection); "
                         "label = (round, clock offset, duration asked of the clock, instant the channel fired, watched-until); exact equality with the model; "
                         "non-trivial = a round requested more than once or a request at/after its deadline (duration <= 0); distinct by hash of (configuration, observed labels)")
    if not cov.get("rule"):
        cov["rule"] = cov["timer_rule"]
    dist = {"template": {}, "kind": {}, "via": {}, "dtype": {}, "flags": {}, "eager_mode": {}}
    for h in hs:
        c = h["cfg"]
        for k, v in (("template", h["template"]), ("kind", c["kind"]), ("via", c["via"]), ("dtype", str(c["dtype"])),
                     ("flags", "linear=%d,eager=%d,proposal=%d" % (c["linear"], c["eager"], c["proposal"]))):
            dist[k][v] = dist[k].get(v, 0) + 1
        if c["kind"] == "eager_dlinear":
            m = "absolute(genesis)" if (c.get("genesis") is not None and c["slotdur"] > 0) else "relative(no genesis)"
            dist["eager_mode"][m] = dist["eager_mode"].get(m, 0) + 1
    reqs = [r for h in hs for r in h["reqs"]]
    dist["requests"] = {"total": len(reqs), "dur<=0": sum(1 for r in reqs if r["dur"] <= 0),
                        "fired_while_watched": sum(1 for r in reqs if r.get("fire") is not None),
                        "rounds_1_64": sum(1 for r in reqs if 1 <= r["round"] <= 64),
                        "rounds_large": sum(1 for r in reqs if r["round"] > 64),
                        "rounds_nonpositive": sum(1 for r in reqs if r["round"] <= 0)}
    cov["timer_input_distribution"] = dist
    cov.setdefault("input_distribution", {})
    if isinstance(cov["input_distribution"], dict):
        cov["input_distribution"]["timer"] = dist
    R.add_samples([{"timer_cfg": h["cfg"], "script": h["script"][:12], "reqs": h["reqs"][:8]} for h in hs if h.get("nontrivial")][:1], limit=1)
    if skipped:
        R.notes.append("timer: %d production-path histories skipped (the timer returned by GetRoundTimerFunc has no re-pointable `clock` field)" % len(skipped))
    if o.get("default_kind") != "eager_dlinear" or not o.get("default_proposal_flag"):
        R.notes.append("timer: the feature set now starts with default timer %s, proposal_timeout=%s; the theorems about the default timer are about eager_dlinear with proposal_timeout" % (o.get("default_kind"), o.get("default_proposal_flag")))
    byid = {h["id"]: h for h in hs}
    replay_of = lambda h: {"cfg": h["cfg"], "script": h["script"], "reqs": h["reqs"],
                           "how": "./check C04_timer --replay <this file> re-runs the script against /repo's timers"}
    validated = 0
    # shards of 250 histories, evaluated by a few coqc processes side by side (elaborating the case
    # list dominates; the vm_compute evaluation itself takes about a second per 10^4 requests)
    shards = list(vp.chunks(hs, 250)) or [[]]
    with concurrent.futures.ThreadPoolExecutor(max_workers=min(6, max(1, vp.NPROC // 2))) as ex:
        results = list(ex.map(lambda a: vp.coq_eval("%s_timer_%d" % (R.pid, a[0]),
                                                    cases_v(a[1], sels if a[0] == 0 else [], o.get("default_kind"), o.get("default_proposal_flag"))),
                              list(enumerate(shards))))
    for i, shard in enumerate(shards):
        rc, out = results[i]
        if rc != 0:
            R.broke("correspondence:cases_timer does not compile", out[-3000:])
            continue
        rej = pairs(vp.parse_marked(out, "rejects"))
        hits = pairs(vp.parse_marked(out, "monitor_hits"))
        km = pairs(vp.parse_marked(out, "kind_mismatch"))
        sm = pairs(vp.parse_marked(out, "sel_mismatch"))
        dflt = vp.parse_marked(out, "default_ok")
        validated += len(shard)
        hit_ids = set()
        for cid, idx in hits:
            h = byid[cid]
            hit_ids.add(cid)
            r = h["reqs"][idx] if idx < len(h["reqs"]) else {}
            R.violation("timer:trace-monitor:%s" % h["cfg"]["kind"],
                        "observed %s timer history violates the round-timer monitor at request %d (round %s, now %s ns: duration %s ns, fired %s)"
                        % (h["cfg"]["kind"], idx, r.get("round"), r.get("now"), r.get("dur"), r.get("fire")),
                        dict(replay_of(h), index=idx))
        for cid, idx in rej:
            if cid in hit_ids:
                continue
            h = byid[cid]
            R.broke("correspondence:Timer model rejects observed history %d at request %d" % (cid, idx), json.dumps(replay_of(h))[:3000])
        for cid, _ in km:
            h = byid[cid]
            R.violation("timer:kind", "Type() of the timer built for flags/duty of history %d is %s, the model selects another kind" % (cid, h["cfg"]["kind"]),
                        dict(replay_of(h), index=0))
        if i == 0:
            for sid, _ in sm:
                s = sels[sid]
                R.violation("timer:selection", "GetRoundTimerFunc with flags linear=%s eager=%s proposal=%s returns a %s timer (Eager()=%s) for duty type %d; the model selects another kind"
                            % (s["linear"], s["eager"], s["proposal"], s["kind"], s["eager_fn"], s["dtype"]), {"selection": s})
            if dflt is not None and dflt.strip() != "true":
                R.broke("correspondence:default feature set no longer selects the eager double linear timer with proposal_timeout",
                        "default_kind=%s proposal_timeout=%s" % (o.get("default_kind"), o.get("default_proposal_flag")))
    cov["timer_traces_validated_against_impl"] = validated
    cov["timer_wall_s"] = round(time.time() - t0, 1)
