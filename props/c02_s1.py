"""S1 end to end (C02, finding F11b): a split decision on the REAL wrapper code core/consensus/qbft with
compareAttestations on (feature chain_split_halt).  Overlay test TestVerifS1Split
(harness/overlay/core_consensus_qbft/zz_verif_s1_test.go): three honest in-process members (real handle,
newTransport/ProcessReceives, newDefinition with compareAttestations, core/qbft.Run under synctest; only the libp2p sender is
replaced) and one scripted Byzantine member (leader of round 3) that signs with its own key only, re-sends an honest leader's
signed PRE-PREPARE with the value re-typed (same hash: F11), and schedules deliveries.  Deterministic, < 1 s.

Reported as R.violation(key F11b:split-decision-retyped-any) when two honest members' Decide callbacks carry different value
hashes; the control run (compareAttestations off = default configuration) must NOT split.  This is the concrete instance of
Properties/C02_cmp.v C02_cmp_refuted_if_cmpok_unrestricted on the wrapper: the hypothesis trace_cmp_fun of C02_cmp_agreement
fails for member 0 (CmpOk on hash A in round 1, CmpFail on the same hash in round 2).

run(R) is called by props/C02.py (it does not call R.finish()); props/C02_s1.py runs it alone under the scratch id C02_s1."""
import json
import os

import vp

OV = os.path.join(vp.HARNESS, "overlay", "core_consensus_qbft", "zz_verif_s1_test.go")
KEY = "F11b:split-decision-retyped-any"


def run(R):
    cov = R.coverage
    replay = os.environ.get("VERIF_REPLAY")
    if replay:
        try:
            j = json.load(open(replay))
            if (j.get("replay", j) or {}).get("scenario") != "s1-split" and j.get("key") != KEY:
                return
        except (OSError, ValueError):
            return
    R.assumptions += [
        "s1: the split-decision scenario runs the wrapper's real handle / transport / Definition / qbft.Run in process; the libp2p sender and Consensus.runInstance's tracing/metrics shell are replaced by the harness, which is also the (asynchronous) network: it delivers, delays and withholds messages as the scripted Byzantine member's schedule says",
    ]
    rc, log, od = vp.go_overlay_test("core/consensus/qbft", {"zz_verif_s1_test.go": OV}, run="TestVerifS1Split$",
                                     env_extra={"VERIF_REPLAY": ""}, outdir=os.path.join(vp.WORK, "ov_s1_" + R.pid), timeout=300)
    if rc != 0:
        R.broke("correspondence:overlay test TestVerifS1Split failed to run", log[-3000:])
        return
    o = json.load(open(os.path.join(od, "qbft_s1_split.json")))
    att, ctl = o["attack"], o["control"]
    cov["evaluations"] += 2
    cov["s1_split"] = {"attack_split": att["split"], "attack_failed_step": att["failed_step"],
                       "attack_decisions": [(d["node"], d["value"], d["round"]) for d in att["decisions"] or []],
                       "control_split": ctl["split"], "control_stops_at": ctl["failed_step"][:60], "steps": len(att["steps"])}
    if att["split"]:
        cov["distinct_nontrivial"] += 1
        ds = att["decisions"]
        R.violation(KEY,
                    "REAL core/consensus/qbft code, compareAttestations on, n=4, one Byzantine member (index 2): honest members decide different values for one duty: "
                    + ", ".join("member %d decides %s (hash %s) in round %d" % (d["node"], d["value"], d["hash"], d["round"]) for d in ds)
                    + "; member 0 got Compare ok on hash A in round 1 and Compare failure on the same hash re-typed as %s in round 2, then accepted the Byzantine leader's unjustified PRE-PREPARE(3, X)" % att["retyped_type_url"],
                    {"scenario": "s1-split", "steps": att["steps"], "decisions": ds, "hash_a": att["hash_a"], "hash_x": att["hash_x"],
                     "how": "./check C02_s1 --replay <this file> re-runs TestVerifS1Split (deterministic, synctest) against /repo"})
    else:
        R.notes.append("s1: the split-decision attack through re-typed Any values is NOT realised on this tree; first failing step: %s" % (att["failed_step"] or "none (no split)"))
    if ctl["split"]:
        R.violation("s1:split-decision-default-config", "the same schedule splits the decision with compareAttestations OFF (default configuration): %s" % ctl["decisions"],
                    {"scenario": "s1-split", "control": ctl})
