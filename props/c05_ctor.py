"""Construction part of C05 ("signature of the cluster member NAMED AS SOURCE") and of C02 (n, quorum): the consensus component
is built THROUGH consensus.NewConsensusController -> qbft.NewConsensus as app.go does (in-package overlay test
harness/overlay/core_consensus/zz_verif_ctor_test.go + exported hooks harness/overlay/core_consensus_qbft/zz_verif_export.go),
for peer sets of sizes 1, 3, 4, 7 and for sets in which two members share a p2p.PeerName (keys ground deterministically).
Checked on the real component: Nodes = number of members, Quorum/Faulty = Common/Quorum.v's quorum/faulty of it, the
index -> key table has exactly the indices 0..n-1 with each member's key, and a COMMIT signed with member i's key claiming
source j is accepted by the real handle iff the model's key lookup (Flow/WireMsg.v pubkey) finds member i's key at j
(out-of-range sources n, n+1, -1, 2^31, 2^40 and other members' indices rejected).

run(R) is called by props/C05.py (and may be called by props/C02.py); it does not call R.finish().  props/C05_ctor.py runs it alone."""
import json
import os
import re

import vp

FILES = {"zz_verif_ctor_test.go": os.path.join(vp.HARNESS, "overlay", "core_consensus", "zz_verif_ctor_test.go"),
         "qbft/zz_verif_export.go": os.path.join(vp.HARNESS, "overlay", "core_consensus_qbft", "zz_verif_export.go")}


def cases_v(sets, cases):
    srows = ["(%d%%nat, %d%%nat, %d%%nat, %d%%nat)" % (s["n"], s["nodes"], s["quorum"], s["faulty"]) for s in sets]
    crows = ["(%d%%nat, (%d%%nat, %d%%N, %s, %s))" % (i, c["n"], 10 + c["signer"], "(%d)%%Z" % c["claimed"], "true" if c["accepted"] else "false")
             for i, c in enumerate(cases)]
    return """From Coq Require Import List ZArith NArith Bool Arith.
From Charon Require Import Common.Quorum Flow.WireMsg Flow.WireMsgCorr.
Import ListNotations.
(* member i holds key 10+i; the component built for n members must look keys up as the model does *)
Definition keys_of (n : nat) : list N := map (fun i => N.of_nat (10 + i)) (seq 0 n).
Definition model_accepts (n : nat) (signer : N) (claimed : Z) : bool :=
  match pubkey (mkenv (keys_of n) GAll [] None) claimed with Some k => N.eqb k signer | None => false end.
Definition sets : list (nat * nat * nat * nat) := [%s].
Definition cases : list (nat * (nat * N * Z * bool)) := [
%s
].
Definition bad_sets := Eval vm_compute in
  filter (fun s => match s with (n, nodes, q, f) => negb (Nat.eqb nodes n && Nat.eqb q (quorum n) && Nat.eqb f (faulty n)) end) sets.
Definition bad_cases := Eval vm_compute in
  flat_map (fun c => match c with (i, (n, signer, claimed, acc)) => if Bool.eqb (model_accepts n signer claimed) acc then [] else [(i, i)] end) cases.
Print bad_sets.
Print bad_cases.
""" % ("; ".join(srows), ";\n".join(crows))


def run(R):
    cov = R.coverage
    R.assumptions += [
        "construction: the component is built through consensus.NewConsensusController with a stub libp2p host (only its ID is used) and a beacon mock; "
        "peer names are p2p.PeerName(id) as p2p.NewPeerFromENR sets them; app.go's own peer list construction (from the cluster lock) is not exercised",
    ]
    outdir = os.path.join(vp.WORK, "ov_ctor_%s_%s" % (R.pid, vp.hashlib.sha256(vp.REPO.encode()).hexdigest()[:6]))
    rc, log, od = vp.go_overlay_test("core/consensus", FILES, run="TestVerifCtor$", env_extra={"VERIF_TIER": R.tier, "VERIF_REPLAY": ""}, outdir=outdir, timeout=600)
    if rc != 0:
        R.broke("correspondence:overlay harness TestVerifCtor failed to run", log[-3000:])
        return
    o = json.load(open(os.path.join(od, "ctor.json")))
    sets, cases = o.get("sets") or [], o.get("cases") or []
    how = "./check C05_ctor re-runs TestVerifCtor (deterministic) against /repo"
    for c in cases:
        if c["accepted"] != c["want"]:
            what = ("construction (%s): a COMMIT signed with member %d's key and claiming source %d was %s by handle (%s)" % (
                c["set"], c["signer"], c["claimed"], "ACCEPTED" if c["accepted"] else "rejected", c["err"] or "no error"))
            key = "ctor:foreign-source-index-accepted" if c["accepted"] else "ctor:member-rejected-at-own-index"
            R.violation(key, what, dict(c, what=what, how=how))
    for s in sets:
        n = s["n"]
        probs = list(s.get("problems") or [])
        if s["peers"] != n or s["nodes"] != n:
            probs.append("component built for %d members has %d peers / definition Nodes = %d" % (n, s["peers"], s["nodes"]))
        if s["quorum"] != (2 * n + 2) // 3:
            probs.append("quorum %d, want ceil(2n/3) = %d" % (s["quorum"], (2 * n + 2) // 3))
        if s["key_idx"] != list(range(n)):
            probs.append("index->key table has indices %s, want 0..%d" % (s["key_idx"], n - 1))
        elif not s["keys_ok"]:
            probs.append("index->key table does not hold each member's key at its index")
        for p in probs:
            what = "construction (%s; names %s): %s" % (s["set"], ",".join(s["names"]), p)
            R.violation("ctor:" + ("members-merged-or-miscounted" if "peers" in p or "quorum" in p else "key-table-not-exactly-the-members"), what,
                        {"set": s, "what": what, "how": how})
    rc, cout = vp.coq_eval("C05_ctor" + ("" if vp.REPO == "/repo" else "s"), cases_v(sets, cases))
    if rc != 0:
        R.broke("correspondence:cases_C05_ctor does not compile", cout[-3000:])
    else:
        bs = (vp.parse_marked(cout, "bad_sets") or "").strip()
        bc = [int(a) for a, _ in re.findall(r"\((\d+)(?:%nat)?,\s*(\d+)(?:%nat)?\)", vp.parse_marked(cout, "bad_cases") or "")]
        py_bad = {i for i, c in enumerate(cases) if c["accepted"] != c["want"]}
        if bs not in ("[]", "nil") and not any(s["nodes"] != s["n"] or s["quorum"] != (2 * s["n"] + 2) // 3 for s in sets):
            R.broke("correspondence:Common/Quorum.v disagrees with the definition's Quorum/Faulty", bs[:500])
        if set(bc) != py_bad:
            R.broke("correspondence:the model's key lookup (WireMsg.pubkey) and the driver disagree on construction cases", "coq=%s driver=%s" % (sorted(bc)[:8], sorted(py_bad)[:8]))
    cov["evaluations"] += len(cases) + len(sets)
    cov["distinct_nontrivial"] += len({(c["n"], c["signer"], c["claimed"]) for c in cases if c["claimed"] != c["signer"]})
    cov["ctor"] = {"peer_sets": [{"set": s["set"], "names": s["names"]} for s in sets], "cases": len(cases), "keys_ground_for_name_collisions": o.get("grind"),
                   "rule": "one evaluation = one signed COMMIT (signer i, claimed source j) through the real handle of a component built by NewConsensusController, or one shape check; "
                           "non-trivial = claimed source differs from the signer's index"}
