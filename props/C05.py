"""C05 consensus acts only on authentic, well-formed peer messages.

Theorems: coq/Properties/C05.v (model coq/Flow/WireMsg.v, proofs coq/Flow/WireMsgFacts.v, concrete
instance coq/Flow/WireMsgCorr.v).  Correspondence = trace inclusion: every call of the REAL
Consensus.handle recorded by the in-package overlay harness
(harness/overlay/core_consensus_qbft/zz_verif*_test.go) must be accepted by the model, with the same
result class, the same deadliner use and the same receive buffers afterwards; the property monitor
is evaluated on the same labels; the Decide callback / a small in-process consensus are run too."""
import json
import os
import re

import vp

OVDIR = os.path.join(vp.HARNESS, "overlay", "core_consensus_qbft")
OVFILES = ["zz_verif_test.go", "zz_verif_mut_test.go", "zz_verif_gen_test.go", "zz_verif_decide_test.go"]
F11 = "F11:any-typeurl-not-hashed"
KNOWN_FIELDS = {
    "msg.type", "msg.duty.slot", "msg.duty.type", "msg.peer_idx", "msg.round", "msg.prepared_round",
    "msg.signature", "msg.value_hash", "msg.prepared_value_hash", "values[].type_url", "values[].value",
    "justification[].type", "justification[].duty.slot", "justification[].duty.type", "justification[].peer_idx",
    "justification[].round", "justification[].prepared_round", "justification[].signature",
    "justification[].value_hash", "justification[].prepared_value_hash",
}


def _known_extra():
    """Optional extra known-finding entries (same format as KNOWN_FINDINGS.json) for this check only."""
    p = os.environ.get("VERIF_KNOWN_EXTRA")
    if not p or not os.path.exists(p):
        return
    extra = json.load(open(p)).get("findings", [])
    orig = vp.known_findings
    vp.known_findings = lambda: orig() + extra


def cases_v(out, traces):
    labels = [l for t in traces for l in t["labels"]]
    text = "\n".join(labels)
    need_p = sorted({int(x) for x in re.findall(r"\bp(\d+)\b", text)})
    ptext = "\n".join(out["parts"][i] for i in need_p)
    need_c = sorted({int(x) for x in re.findall(r"\bc(\d+)\b", ptext)})
    vals = set(re.findall(r"\(V (\d+) (\d+)\)", text))
    dt = [d for d in (out.get("dtab") or []) if tuple(d.split()[1:3]) in vals]
    cids = {m for d in dt for m in re.findall(r"Some (\d+)%N", d)}
    ht = [x for x in (out.get("htab") or []) if x.split()[1] in cids]
    defs = ["Definition c%d := %s." % (i, out["contents"][i]) for i in need_c]
    defs += ["Definition p%d := %s." % (i, out["parts"][i]) for i in need_p]
    rows = ["(%d%%nat, [%s])" % (t["id"], ";\n  ".join(t["labels"])) for t in traces]

    def tab(xs):
        return "[" + "; ".join("(%d, %s)" % (a, "true" if b else "false") for a, b in xs) + "]%Z"
    return """From Coq Require Import List ZArith NArith Bool.
From Charon Require Import Flow.WireMsg Flow.WireMsgCorr.
Import ListNotations.
Definition dt : dtab := [%s].
Definition ht : htab := [%s].
%s
Definition traces : list (nat * list clabel) := [
%s
].
Definition rejects := Eval vm_compute in
  flat_map (fun t => match c_first_reject dt ht [] (snd t) 0 with Some (i, _, _, _) => [(fst t, i)] | None => [] end) traces.
Definition reject_info := Eval vm_compute in
  flat_map (fun t => match c_first_reject dt ht [] (snd t) 0 with Some x => [(fst t, x)] | None => [] end) traces.
Definition monitor_hits := Eval vm_compute in
  flat_map (fun t => match c_first_violation dt ht [] (snd t) 0 with Some i => [(fst t, i)] | None => [] end) traces.
Definition tables_ok := Eval vm_compute in
  (valid_tables_ok %s %s && Nat.eqb cap %d).
Print rejects.
Print reject_info.
Print monitor_hits.
Print tables_ok.
""" % ("; ".join(dt), "; ".join(ht), "\n".join(defs), ";\n".join(rows),
       tab(out["valid_msg"]), tab(out["valid_duty"]), out["cap"])


def pairs(term):
    return [(int(a), int(b)) for a, b in re.findall(r"\((\d+)(?:%nat)?,\s*(\d+)(?:%nat)?\)", term or "")]


def shards(traces, maxlabels=1500):
    cur, n = [], 0
    for t in traces:
        if cur and n + len(t["labels"]) > maxlabels:
            yield cur
            cur, n = [], 0
        cur.append(t)
        n += len(t["labels"])
    if cur:
        yield cur


def opkind(op):
    return re.sub(r"[@=]-?\d+|\d+", "#", op or "")


def main():
    _known_extra()
    R = vp.Result("C05")
    R.assumptions = [
        "cryptography is symbolic: the deterministic serialisation of a part is injective and hashProto collision free on it (encode_inj, H_inj); "
        "secp256k1 signatures are unforgeable / bind one (key, digest) (unforgeable, sig_binds); hashProto is collision free on the canonical bytes of values (Hv_inj). "
        "These are explicit premises of the theorems that use them, never axioms. (hashProto's ssz root has no length mix-in: byte strings differing only in "
        "trailing zero padding collide; no two valid protobuf encodings differ that way.)",
        "a value is identified with (type URL, decoded inner message); the value hash covers the inner message only -- the type URL is NOT covered (finding F11: typeurl_tamper_refuted)",
        "ctx is modelled as the sequence of answers to the ctx.Err() polls handle makes; a full receive buffer is modelled as 'blocks until ctx is done' (the harness only "
        "closes Done() when the buffer is full; the race between a free slot and a done ctx in the final select is not generated)",
        "peers' keys are indexed 0..n-1 as NewConsensus builds them; nodes = len(pubkeys)",
        "the harness renders a signature as Sg k c from its own record of what it signed with which key (real signMsg/createMsg); bytes it did not obtain by signing are SgBad",
        "the p2p layer (size cap maxConsensusMsgSize, protobuf decoding before handle) is exercised only as 'bytes that do not decode never reach handle'",
    ]
    R.proofs()
    replay = None
    env_extra = {"VERIF_TIER": R.tier}
    if os.environ.get("VERIF_REPLAY"):
        replay = json.load(open(os.environ["VERIF_REPLAY"])).get("replay", {})
        if "seed" in replay:
            env_extra["VERIF_SEED"] = replay["seed"]
        if "tier" in replay:
            env_extra["VERIF_TIER"] = replay["tier"]
        if replay.get("trace") is not None:
            env_extra["VERIF_ONLY_TRACE"] = replay["trace"]
    files = {f: os.path.join(OVDIR, f) for f in OVFILES}
    outdir = os.path.join(vp.WORK, "ov_c05_%s" % vp.hashlib.sha256(vp.REPO.encode()).hexdigest()[:6])
    rc, log, od = vp.go_overlay_test("core/consensus/qbft", files, run="TestVerifC05$", env_extra=env_extra, outdir=outdir, timeout=1200)
    if rc != 0:
        R.broke("correspondence:overlay harness TestVerifC05 failed to run", log[-3000:])
        R.finish()
    out = json.load(open(os.path.join(od, "c05.json")))
    traces = out.get("traces") or []
    metas = out.get("meta") or []
    by_pos = {(m["trace"], m["index"]): m for m in metas}
    by_case = {m["case"]: m for m in metas}
    tier = out.get("tier") or "quick"

    def rp(m, what):
        return {"seed": out["seed"], "tier": tier, "trace": m["trace"], "index": m["index"], "case": m["case"], "class": m["class"],
                "path": m["path"], "op": m["op"], "observed": m["res"], "error": m["err"], "wire_hex": m.get("wire_hex", ""),
                "what": what, "how": "./check C05 --replay <this file> regenerates trace %d with the same seed against /repo and re-evaluates it" % m["trace"]}

    flagged = set()
    # ---- monitors over the recorded calls (independent of the model's decision function)
    for m in metas:
        acc = m["res"] == "Accept"
        if m["res"] == "UNKNOWN":
            R.broke("correspondence:unclassified error of handle: %s" % m["err"], json.dumps(rp(m, "")))
            continue
        if not acc:
            continue
        key = None
        if m["expect"] == "reject":
            key = "accepted-tamper:" + m["class"]
        elif m["expect"] == "essence" and m["base"] >= 0:
            # an accepted altered message may only contain signed contents its accepted original
            # contained, and must resolve every hash the original resolved to the same decoded
            # message of the same proto type
            b = by_case.get(m["base"])
            if b is not None and b["res"] == "Accept":
                bp, bw, mw = set(b.get("parts_d") or []), b.get("wins") or {}, m.get("wins") or {}
                if not set(m.get("parts_d") or []) <= bp:
                    key = "accepted-tamper:" + m["class"]
                else:
                    for h, w in mw.items():
                        if h in bw and w != bw[h]:
                            same_content = w.split("|")[1] == bw[h].split("|")[1]
                            key = F11 if same_content else "accepted-tamper:" + m["class"]
        if key:
            flagged.add((m["trace"], m["index"]))
            what = "handle ACCEPTED an altered message (%s %s %s; original accepted)" % (m["class"], m["path"], m["op"])
            R.violation(key, what, rp(m, what))
    # ---- Decide
    for d in out.get("decide") or []:
        R.coverage["evaluations"] += 1
        if d["exact"] and d["calls"] == d["want_calls"]:
            continue
        key = F11 if d["kind"] in ("typeurl", "cluster-retype") else "decide-not-exact:" + d["kind"]
        what = "Decide: %s -- subscriber calls %d (want %d), exact=%s; %s %s" % (d["name"], d["calls"], d["want_calls"], d["exact"], d["handle_err"], d["detail"])
        R.violation(key, what, {"seed": out["seed"], "tier": tier, "decide": d, "what": what,
                                "how": "./check C05 --replay <this file> re-runs the Decide scenarios against /repo"})
    # ---- model
    nlabels = 0
    tag = "" if vp.REPO == "/repo" and replay is None else "s"   # scratch trees / replays do not overwrite the case files of a normal run
    for si, shard in enumerate(shards(traces)):
        nlabels += sum(len(t["labels"]) for t in shard)
        rc, cout = vp.coq_eval("C05%s_%d" % (tag, si), cases_v(out, shard))
        if rc != 0:
            R.broke("correspondence:cases_C05_%d does not compile" % si, cout[-3000:])
            continue
        if (vp.parse_marked(cout, "tables_ok") or "").strip() != "true":
            R.broke("correspondence:Valid() tables / RecvBufferSize differ from the model's constants", cout[-800:])
        info = vp.parse_marked(cout, "reject_info") or ""
        for tid, idx in pairs(vp.parse_marked(cout, "monitor_hits")):
            m = by_pos.get((tid, idx))
            if m is None:
                R.broke("correspondence:monitor fails at a buffer label, trace %d label %d" % (tid, idx), "")
                continue
            flagged.add((tid, idx))
            key = ("accepted-unauthentic:" if m["res"] == "Accept" else "reject-touched-state:") + m["class"]
            what = "observed call violates the C05 monitor (%s; %s %s %s)" % (m["res"], m["class"], m["path"], m["op"])
            R.violation(key, what, rp(m, what))
        for tid, idx in pairs(vp.parse_marked(cout, "rejects")):
            if (tid, idx) in flagged:
                continue
            m = by_pos.get((tid, idx))
            lab = next((t["labels"][idx] for t in shard if t["id"] == tid and idx < len(t["labels"])), "?")
            desc = "%s %s %s observed %s (%s)" % (m["class"], m["path"], m["op"], m["res"], m["err"]) if m else lab[:200]
            R.broke("correspondence:WireMsg model disagrees with handle at trace %d label %d: %s" % (tid, idx, desc),
                    json.dumps({"replay": rp(m, desc) if m else {}, "model": info[-1500:], "label": lab[:3000]}))
    if out.get("hash_diff"):
        R.broke("correspondence:hashProto differs from the ssz root of the deterministic bytes", "; ".join(out["hash_diff"][:3]))
    if out.get("unsupported"):
        R.broke("coverage:proto field kinds the alteration engine does not handle: " + "; ".join(sorted(set(out["unsupported"]))[:5]), "")
    fields = set(out.get("fields") or [])
    if not KNOWN_FIELDS <= fields and replay is None:
        R.broke("coverage:leaf fields not exercised: " + ", ".join(sorted(KNOWN_FIELDS - fields)), "")
    if fields - KNOWN_FIELDS:
        R.notes.append("proto fields unknown to the model were picked up by reflection and abstracted into c_extra: " + ", ".join(sorted(fields - KNOWN_FIELDS)))

    # ---- coverage
    R.coverage["evaluations"] += len(metas)
    seen, classes = set(), {}
    for m in metas:
        classes[m["class"]] = classes.get(m["class"], 0) + 1
        b = by_case.get(m["base"]) if m["base"] >= 0 else None
        if b is not None and b["res"] == "Accept" and not m["same"] and m["class"] != "base":
            seen.add((m["class"], re.sub(r"\[\d+\]", "[]", m["path"]), opkind(m["op"]), m["msg_type"], m["njust"] > 0, m["res"]))
    R.coverage["distinct_nontrivial"] = len(seen)
    R.coverage["rule"] = ("one evaluation = one call of the real Consensus.handle (or one Decide scenario); non-trivial = an ALTERED message whose unaltered "
                          "original was accepted by the same component; distinct by (alteration class, field path with indices erased, alteration kind, "
                          "message type, has justifications, observed result class)")
    results = {}
    for m in metas:
        results[m["res"]] = results.get(m["res"], 0) + 1
    R.coverage["input_distribution"] = {
        "classes": classes, "results": results, "labels_total": nlabels, "traces": len(traces),
        "undecodable_byte_strings_never_reaching_handle": {k: v for k, v in (out.get("stats") or {}).items() if "undecodable" in k},
        "leaf_fields_enumerated_by_reflection": sorted(fields),
        "decide_scenarios": [{"name": d["name"], "calls": d["calls"], "want": d["want_calls"], "exact": d["exact"]} for d in out.get("decide") or []],
        "distinct_contents": len(out.get("contents") or []), "distinct_parts": len(out.get("parts") or []),
        "distinct_values": len(out.get("dtab") or []),
    }
    R.add_samples([{"class": m["class"], "path": m["path"], "op": m["op"], "observed": m["res"],
                    "label": next(t["labels"][m["index"]] for t in traces if t["id"] == m["trace"])[:900]}
                   for m in metas if m["class"] in ("leaf", "value-byte") and m["base"] >= 0][:2])
    R.coverage["traces_validated_against_impl"] = len(traces)
    # C05 -> C02 bridge (accepted messages satisfy Net.v's deliverability premise), built separately: props/c05_bridge.py
    try:
        import c05_bridge
    except ImportError:
        c05_bridge = None
        R.notes.append("bridge part (props/c05_bridge.py) not present in this tree")
    if c05_bridge is not None:
        c05_bridge.run(R)
    # construction (component built through NewConsensusController: index -> key table, n, quorum), built separately: props/c05_ctor.py
    try:
        import c05_ctor
    except ImportError:
        c05_ctor = None
        R.notes.append("construction part (props/c05_ctor.py) not present in this tree")
    if c05_ctor is not None:
        c05_ctor.run(R)
    R.finish()
