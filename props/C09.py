"""C09 signature aggregator: theorems in coq/Properties/C09.v over the model coq/Flow/SigAgg.v;
correspondence = every call of the real core/sigagg Aggregator recorded by harness/sigagg (real tbls
key shares, real verifier over a beaconmock) must be a label the model accepts, and must pass the
monitor that transcribes the property."""
import collections
import concurrent.futures
import glob
import json
import os
import re
import shutil

import vp


def cases_v(cs):
    rows = ["(%d%%nat, %s)" % (c["id"], c["label"]) for c in cs]
    return """From Coq Require Import List ZArith NArith Bool.
From Charon Require Import Flow.SigAgg.
Import ListNotations.
Local Open Scope N_scope.
Definition idf := (fun c : N => c).
Definition cases : list (nat * label N) := [
%s
].
Definition rejects := Eval vm_compute in
  flat_map (fun c => if accepts N idf (snd c) then [] else [fst c]) cases.
Definition monitor_hits := Eval vm_compute in
  flat_map (fun c => if monitor1 N idf (snd c) then [] else [fst c]) cases.
Print rejects.
Print monitor_hits.
""" % ";\n".join(rows)


def ids(term):
    return [int(a) for a in re.findall(r"(\d+)", term or "")]


def spec_of(c):
    return {k: c[k] for k in ("id", "kind", "type", "t", "n", "vals", "subs", "mutate", "corrupt", "cancel", "epoch", "epoch_zero", "straddle", "other_epoch", "seq")}


def main():
    R = vp.Result("C09")
    R.assumptions = [
        "cryptography is symbolic in the model: the combination of a share map verifies under validator v's group key for root rho iff the map has >= t entries and every entry (i, s) is the signature of v's share i over rho (algebra: C08; unforgeability and the soundness of herumi's pairing check are trusted). The correspondence run compares exactly this definition with herumi on every generated case",
        "signing root (domain, epoch, message root) is an injective function of the signed content (hypothesis of C09_published_valid, not an axiom)",
        "N1: 'repeat a share => nothing published' is proved in the form the code has: fewer than t DISTINCT share indices => nothing; with surplus partials a repeated share index is overwritten (last wins) and a valid object is still published (C09_repeat_with_surplus_still_valid)",
        "the context passed to Aggregate is not consulted by Aggregate itself; the harness wraps the injected verifier to cancel the caller's context at scripted moments and calls the real verifier with a context detached from that cancellation (so the beacon-mock client is not affected); the model's answer is independent of cancellation",
        "aggregator and verifier keep no state between calls: the label carries the call's (type, epoch) and the earlier calls of the same aggregator/verifier, and the model ignores them; sequences with one long-lived sigagg.New + sigagg.NewVerifier check this history-independence across fork boundaries",
        "threshold t >= 1 (sigagg.New refuses t <= 0); t = 1 is exercised only on valid inputs because with a single key all 'shares' coincide",
        "phase0/altair proposals are refused by the verifier ('unsupported version'): fail-closed, not generated",
        "the harness's signing root is computed from the raw eth2 objects (domain constants, epoch, hash-tree-root) independently of core/eth2signeddata.go and eth2util/signing; SSZ hashing, the beacon mock's domain computation and herumi BLS are trusted",
    ]
    R.proofs()
    n = 8000 if R.thorough else 2750
    rc, out, od = vp.go_harness("sigagg", outdir=os.path.join(vp.WORK, "sigagg_%d" % os.getpid()), env_extra={"VERIF_N": n})
    if rc != 0:
        R.broke("correspondence:harness sigagg failed to run", out[-3000:])
        R.finish()
    cs = json.load(open(os.path.join(od, "sigagg_cases.json")))
    shutil.rmtree(od, ignore_errors=True)   # private output directory: concurrent runs of this check do not clobber each other
    R.coverage["evaluations"] = len(cs)
    seen = set()
    for c in cs:
        if c.get("nontrivial"):
            seen.add(vp.digest([c["type"], c["label"]]))
    R.coverage["distinct_nontrivial"] = len(seen)
    R.coverage["rule"] = ("one evaluation = one call of sigagg.Aggregate on the real component (sigagg.New + sigagg.NewVerifier over beaconmock) with real tbls shares; "
                          "non-trivial = call whose batch contains at least one corrupted/irregular partial (wrong share's signature, wrong/out-of-range/zero/negative share index, other message, other domain, other fork, "
                          "other validator's share, zero/truncated/random/infinity/foreign-key signature, bad length, too few, repeats with and without surplus, payload taken from a non-contributing partial, bare-signature objects, attestation ValidatorIndex variants), or whose context is cancelled before the call / right after the k-th verifier invocation (multi-validator batches with 0..2 bad validators at every placement, each repeated because Go's map order is random), or whose validators share one signing root and exchange partials across validators so that the errors cancel in a sum over validators (swaps at one/two/different share indices, cyclic shift among three, genuine partial +D / -D for a foreign point D), or that is a call of a sequence served by ONE long-lived aggregator and verifier (same duty type at epochs in different forks of the beacon mock, both orders, signed for the own epoch's domain and with the other fork's domain; and objects at epochs 0, 1 and around every fork of the schedule signed under the fork version the spec prescribes and under other fork versions, compute_domain evaluated in the harness; and attestations / aggregate-and-proofs whose slot and target epoch lie on different sides of a fork activation, both directions, signed under the fork version of the epoch the spec names and under the other side's); "
                          "distinct by hash of (type, abstract label)")
    dist = collections.Counter()
    for c in cs:
        dist["kind:" + c["kind"]] += 1
        dist["outcome:" + (c["err"] or "published")] += 1
        dist["validators:%d" % len(c["vals"] or [])] += 1
        if c.get("seq"):
            dist["sequence_position:%d" % c.get("pos", 0)] += 1
        if c.get("cancel"):
            dist["ctx_cancel:%s" % ("before_call" if c["cancel"] == 1 else "after_verify_%d" % (c["cancel"] - 1))] += 1
        for k in c.get("corrupt") or []:
            dist["corruption:" + k] += 1
    types = collections.Counter(c["type"] for c in cs)
    R.coverage["input_distribution"] = {"by": dict(sorted(dist.items())), "types_x_forks": dict(sorted(types.items())),
                                        "thresholds": dict(sorted(collections.Counter("%d-of-%d" % (c["t"], c["n"]) for c in cs).items()))}
    R.add_samples([{"spec": spec_of(c), "label": c["label"], "err": c["err_text"]} for c in cs if c.get("nontrivial")][:2])
    byid = {c["id"]: c for c in cs}

    def replay_of(c):
        """A call of a sequence is replayed with all earlier calls of its sequence (same aggregator and verifier)."""
        rp = dict(spec_of(c), observed={"err": c["err_text"], "calls": c["calls"]}, label=c["label"],
                  how="./check C09 --replay <this file> rebuilds the batch(es) from the spec(s) and calls sigagg.Aggregate in /repo")
        if not os.environ.get("VERIF_REPLAY"):
            rp["hist_seed"], rp["hist_n"] = R.seed, n
        if c.get("seq"):
            rp["seq_specs"] = [spec_of(x) for x in allcs if x.get("seq") == c["seq"] and x["id"] <= c["id"]]
            rp["previous_calls"] = c.get("prev")
        return rp
    allcs = list(cs)
    unknown = [c for c in cs if c["err"] == "EUnknown"]
    for c in unknown[:3]:
        R.broke("correspondence:Aggregate returned an error the model has no class for: %s" % c["err_text"], json.dumps(spec_of(c)))
    cs = [c for c in cs if c["err"] != "EUnknown"]
    shards = list(vp.chunks(cs, 400))
    with concurrent.futures.ThreadPoolExecutor(max_workers=14) as ex:   # shards are independent coqc runs
        results = list(ex.map(lambda a: vp.coq_eval("C09p%d_%d" % (os.getpid(), a[0]), cases_v(a[1])), enumerate(shards)))
    for f in glob.glob(os.path.join(vp.COQ, "gen", "*cases_C09p%d_*" % os.getpid())) + glob.glob(os.path.join(vp.COQ, "gen", ".cases_C09p%d_*" % os.getpid())):
        os.remove(f)
    for rc, out in results:
        if rc != 0:
            R.broke("correspondence:cases_C09 does not compile", out[-3000:])
            continue
        rej = ids(vp.parse_marked(out, "rejects"))
        hits = ids(vp.parse_marked(out, "monitor_hits"))
        for cid in hits:
            c = byid[cid]
            R.violation("published-invalid", "sigagg handed subscribers a set that violates C09 (type %s, corruptions %s, observed calls %s)" % (c["type"], c["corrupt"], c["calls"]),
                        replay_of(c))
        for cid in rej:
            if cid in hits:
                continue
            c = byid[cid]
            R.broke("correspondence:SigAgg model does not allow observed outcome of case %d (%s, corruptions %s): err=%r calls=%s" % (cid, c["type"], c["corrupt"], c["err_text"], c["calls"]),
                    json.dumps({"spec": spec_of(c), "label": c["label"], "previous_calls": c.get("prev")}))
    R.coverage["traces_validated_against_impl"] = len(cs)
    R.finish()
