"""C03 at network level with compare failures: theorems in coq/Properties/C03_cmp.v (decide_nonzero, decide_leader_proposed,
validity_no_byz for EVERY execution of Qbft/Net.v, no hypothesis on Definition.Compare); correspondence = the cluster
executions of harness/qbft TestCmpFun (real core/qbft.Run, compare failures, scripted Byzantine members / all honest with
arbitrary verdicts) replayed by nrun and checked with the observed-trace forms of the three statements.

run(R) is called by props/C03.py with the vp.Result of the C03 check (it does not call R.finish());
props/C03_cmp.py runs it alone under the scratch id C03_cmp."""
import c02_cmp as cc
import qbft_engine as qe

CODE = {1: "decided twice", 2: "decided the zero value", 3: "qcommit handed to Decide lacks a quorum of COMMIT(round, value)"}


def run(R):
    R.assumptions += [
        "cmp: the network-level C03 statements of Properties/C03_cmp.v hold for every execution of Qbft/Net.v whatever Definition.Compare answers (no hypothesis on the verdicts); signatures symbolic as in C02",
    ]
    cc.merge_proofs(R, "C03_cmp", "cmp")
    res = cc.observe(R)
    if res is None:
        return
    byid = res["byid"]
    hit = set()
    for cid, pid, code in res["c03"]:
        h = byid[cid]
        hit.add(cid)
        R.violation("validity:cmp-%d" % code, "process %d of history %d (%s, n=%d): %s" % (pid, cid, h["kind"], h["nodes"], CODE.get(code, code)), qe.replay_obj(h))
    for cid, pid in res["lp"]:
        h = byid[cid]
        hit.add(cid)
        R.violation("validity:cmp-decided-value-not-proposed-by-round-leader",
                    "process %d of history %d (%s) decided a (value, round) for which nobody received a PRE-PREPARE from that round's leader" % (pid, cid, h["kind"]), qe.replay_obj(h))
    for cid, pid in res["vb"]:
        h = byid[cid]
        hit.add(cid)
        R.violation("validity:cmp-no-byz-decided-value-not-an-input",
                    "process %d of all-honest history %d (%s) decided a value that was nobody's input" % (pid, cid, h["kind"]), qe.replay_obj(h))
    cc.report_correspondence(R, res, hit)
    cc.coverage(R, res, "cmp")
