"""Reorg side of C20 / C15: which epoch the subscribers of chain-reorg events (duties cache InvalidateCache, scheduler
HandleChainReorgEvent) are told by app/sse/listener.go for a beacon-node event chain_reorg{slot, depth, epoch}.
Theorems: coq/Properties/C20_reorg.v about the model coq/Flow/SseReorg.v; correspondence: raw events are fed to the REAL
listener.eventHandler (in-package overlay harness harness/overlay/app_sse/zz_verif_reorg_test.go) with two subscribers and
the observed label sequences must be runs of the model and satisfy its monitor (told epoch = epoch of the common
ancestor slot - depth; nothing else dropped than a repeat of the epoch told last).

run(R) is called by props/C20.py and props/C15.py with their vp.Result (it does not call R.finish())."""
import json
import os
import re

import vp

OVFILES = {"zz_verif_reorg_test.go": os.path.join(vp.HARNESS, "overlay", "app_sse", "zz_verif_reorg_test.go")}


def lab(l):
    # "LReorg slot depth epoch errored out" -> Coq
    m = re.match(r"LReorg (\d+) (\d+) (\d+) (true|false) (none|\(Some \d+\))$", l)
    if not m:
        return None
    return "LReorg %s %s %s %s %s" % (m.group(1), m.group(2), m.group(3), m.group(4), "None" if m.group(5) == "none" else m.group(5))


def cases_v(hs):
    rows = ["(%d%%nat, %d, [%s])" % (h["id"], h["spe"], "; ".join(lab(l) for l in h["labels"])) for h in hs]
    return """From Coq Require Import List NArith Bool.
From Charon Require Import Flow.SseReorg.
Import ListNotations.
Local Open Scope N_scope.
Definition cases : list (nat * N * list label) := [
%s
].
Definition rejects := Eval vm_compute in
  flat_map (fun c => match first_reject (snd (fst c)) init (snd c) 0 with Some i => [(fst (fst c), i)] | None => [] end) cases.
Definition monitor_hits := Eval vm_compute in
  flat_map (fun c => match first_violation (snd (fst c)) (snd c) with Some i => [(fst (fst c), i)] | None => [] end) cases.
Print rejects.
Print monitor_hits.
""" % ";\n".join(rows)


def pairs(term):
    flat = re.sub(r"\s+", "", term or "")
    return [(int(a), int(b)) for a, b in re.findall(r"\((\d+)(?:%nat)?,(\d+)(?:%nat)?\)", flat)]


def run(R):
    cov = R.coverage
    R.assumptions += [
        "reorg: the SSE transport (HTTP stream, reconnects) is not exercised: raw chain_reorg events are handed to listener.eventHandler; "
        "'affected epochs' is read as: every epoch from the common ancestor's (slot - depth) on",
        "reorg: a second reorg whose common ancestor lies in the epoch told last is not forwarded (listener.lastReorgEpoch, initially 0, "
        "meant for several beacon nodes reporting one reorg) - modelled as the code has it and stated in the monitor",
    ]
    prev = {k: cov.get(k) for k in ("theorems", "checker_cmd", "coqchk")}
    R.proofs(pid="C20_reorg")
    cov["reorg_theorems"] = cov.get("theorems") or []
    cov["theorems"] = (prev["theorems"] or []) + [t for t in cov["reorg_theorems"] if t not in (prev["theorems"] or [])]
    if prev["checker_cmd"] and prev["checker_cmd"] != cov.get("checker_cmd"):
        cov["checker_cmd"] = prev["checker_cmd"] + "; " + cov.get("checker_cmd", "")
    if "coqchk" in cov and prev["coqchk"] and prev["coqchk"] != cov["coqchk"]:
        cov["reorg_coqchk"] = cov["coqchk"]
        cov["coqchk"] = prev["coqchk"]
    replay = os.environ.get("VERIF_REPLAY", "")
    if replay:
        try:
            if not str(json.load(open(replay)).get("key", "")).startswith("reorg:"):
                return
        except Exception:
            return
    outdir = os.path.join(vp.WORK, "ov_sse_%s_%s" % (R.pid, vp.hashlib.sha256(vp.REPO.encode()).hexdigest()[:6]))
    rc, log, od = vp.go_overlay_test("app/sse", OVFILES, run="TestVerifSseReorg$",
                                     env_extra={"VERIF_N": 2000 if R.thorough else 300, "VERIF_REPLAY": replay, "VERIF_SEED": R.seed}, outdir=outdir, timeout=600)
    if rc != 0:
        R.broke("correspondence:overlay harness TestVerifSseReorg failed to run", log[-3000:])
        return
    hs = json.load(open(os.path.join(od, "sse_reorg.json")))
    how = "./check %s --replay <this file> feeds the same events to the real app/sse listener of /repo" % R.pid
    good = []
    for h in hs:
        bad = next((l for l in h["labels"] if lab(l) is None), None)
        if bad:  # subscribers told different things / told several epochs for one event
            R.violation("reorg:subscribers-told-inconsistently", "one chain_reorg event, subscribers of the listener were told: %s" % bad,
                        {"spe": h["spe"], "events": h["events"], "labels": h["labels"], "how": how})
        else:
            good.append(h)
    byid = {h["id"]: h for h in good}
    rc, out = vp.coq_eval("sse_reorg_%s" % R.pid + ("" if vp.REPO == "/repo" else "s"), cases_v(good))
    if rc != 0:
        R.broke("correspondence:cases_sse_reorg does not compile", out[-3000:])
        return
    hits = pairs(vp.parse_marked(out, "monitor_hits"))
    for cid, idx in hits:
        h = byid[cid]
        ev = h["events"][idx]
        R.violation("reorg:told-epoch-not-ancestor-epoch",
                    "chain_reorg{slot %d, depth %d, epoch field %d} with %d slots/epoch: common ancestor slot %d lies in epoch %d, observed %s" % (
                        ev["slot"], ev["depth"], ev["epoch"], h["spe"], ev["slot"] - ev["depth"], (ev["slot"] - ev["depth"]) // h["spe"] if ev["slot"] >= ev["depth"] else -1, h["labels"][idx]),
                    {"spe": h["spe"], "events": h["events"][:idx + 1], "labels": h["labels"][:idx + 1], "index": idx, "how": how})
    hit_ids = {c for c, _ in hits}
    for cid, idx in pairs(vp.parse_marked(out, "rejects")):
        if cid in hit_ids:
            continue
        h = byid[cid]
        R.broke("correspondence:SseReorg model rejects observed history %d at event %d (%s)" % (cid, idx, h["labels"][idx]), json.dumps(h))
    nl = sum(len(h["labels"]) for h in hs)
    told = sum(1 for h in hs for l in h["labels"] if "Some" in l)
    cross = sum(1 for h in hs for e in h["events"] if e["slot"] >= e["depth"] and (e["slot"] - e["depth"]) // h["spe"] < e["slot"] // h["spe"])
    cov["evaluations"] = cov.get("evaluations", 0) + nl
    cov["distinct_nontrivial"] = cov.get("distinct_nontrivial", 0) + len({(h["spe"], tuple(h["labels"])) for h in hs if any("Some" in l for l in h["labels"])})
    cov["reorg"] = {"histories": len(hs), "events": nl, "events_forwarded": told, "events_crossing_an_epoch_boundary": cross,
                    "invalid_events": sum(1 for h in hs for e in h["events"] if e["slot"] < e["depth"]),
                    "kinds": {k: sum(1 for h in hs if h["kind"] == k) for k in sorted({h["kind"] for h in hs})},
                    "rule": "one evaluation = one chain_reorg event handed to the real listener.eventHandler with two subscribers; distinct by (slots per epoch, observed label sequence) among histories that forwarded at least one epoch"}
