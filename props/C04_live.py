"""Stand-alone run of the termination part of C04 (props/c04_live.py) under the scratch id
C04_live:  ./check C04_live [--tier quick|thorough].  The id is not in the manifest; the C04 check
calls c04_live.run(R) itself."""
import vp
import c04_live


def main():
    R = vp.Result("C04_live")
    c04_live.run(R)
    R.finish()
