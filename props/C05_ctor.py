"""Standalone run of the construction part of C05 (scratch id C05_ctor)."""
import vp
import c05_ctor


def main():
    R = vp.Result("C05_ctor")
    c05_ctor.run(R)
    R.coverage["rule"] = (R.coverage.get("ctor") or {}).get("rule", "")
    R.finish()
