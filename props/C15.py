"""C15 scheduler: theorems in coq/Properties/C15.v; correspondence = trace inclusion of the label
sequences recorded from core/scheduler (real Scheduler, scripted beacon node, fake clock, synctest)
in the model coq/Flow/Scheduler.v, plus the trace monitor evaluated on every observed trace."""
import json
import os
import re
from concurrent.futures import ThreadPoolExecutor

import vp


def cases_v(hs):
    rows = []
    for h in hs:
        sc = h["script"]
        rows.append("(%d%%nat, (%d, %d, %d), (%s, %s), [%s], [%s])" % (h["id"], sc["slot_ns"], sc["spe"], sc["start_ns"], h.get("fm", "FOff"),
                                                                   "true" if h.get("ff") else "false",
                                                                   "; ".join(str(v["pk"]) for v in (sc.get("vals") or [])),
                                                                   ";\n   ".join(h["labels"])))
    return """From Coq Require Import List NArith Bool.
From Charon Require Import Flow.Scheduler Flow.SchedulerFacts.
Import ListNotations.
Local Open Scope N_scope.
Definition case0 := (nat * (N * N * N) * (fmode * bool) * list N * list label)%%type.
Definition case := (nat * (N * N * N) * (fmode * bool) * list label)%%type.
Definition cases0 : list case0 := [
%s
].
Definition cCL (c : case0) : list N := snd (fst c).
Definition strip (c : case0) : case := (fst (fst c), snd c).
Definition cases : list case := map strip cases0.
Definition cid (c : case) := fst (fst (fst c)).
Definition prm (c : case) := snd (fst (fst c)).
Definition cD c := fst (fst (prm c)).
Definition cS c := snd (fst (prm c)).
Definition cT c := snd (prm c).
Definition cFM (c : case) := fst (snd (fst c)).
Definition cFF (c : case) := snd (snd (fst c)).
Definition rejects := Eval vm_compute in
  flat_map (fun c => match first_reject (cD c) (cS c) (cFM c) (cFF c) (init (cD c) (cT c)) (snd c) 0 with Some i => [(cid c, i)] | None => [] end) cases.
Definition monitor_hits := Eval vm_compute in
  flat_map (fun c => if wf_trace (cS c) (snd c)
                     then match first_violation (cD c) (cS c) (cFM c) (ginit (cT c)) (snd c) 0 with Some i => [(cid c, i)] | None => [] end
                     else []) cases.
Definition not_wf := Eval vm_compute in
  flat_map (fun c => if wf_trace (cS c) (snd c) then [] else [(cid c, 0%%nat)]) cases.
Definition outside_cluster := Eval vm_compute in
  flat_map (fun c => (if vals_in_cluster (cCL c) (snd c) then [] else [(fst (fst (fst (fst c))), 0%%nat)])
                     ++ (if trigs_in_cluster (cCL c) (snd c) then [] else [(fst (fst (fst (fst c))), 1%%nat)])) cases0.
Print rejects.
Print outside_cluster.
Print monitor_hits.
Print not_wf.
""" % ";\n".join(rows)


def pairs(term):
    return [(int(a), int(b)) for a, b in re.findall(r"\((\d+)%?n?a?t?, (\d+)%?n?a?t?\)", term or "")]


def classify(h, idx):
    """Stable key for a monitor violation at label idx of history h (python-side reading of the trace)."""
    lab = h["labels"][idx] if idx < len(h["labels"]) else ""
    m = re.match(r"LFire (\d+) ", lab)
    if m:
        earlier = " ".join(h["labels"][:idx])
        if re.search(r"LFire %s \[" % m.group(1), earlier) or re.search(r"T Attester %s \[" % m.group(1), earlier):
            return "duty-triggered-twice"
        return "attester-released-before-offset-or-unassigned"
    if lab.startswith("LQuiet"):
        return "due-attester-duty-not-released"
    m = re.match(r"LTick (\d+) ", lab)
    if not m:
        return "trace-monitor"
    slot = m.group(1)
    duties = re.findall(r"T (\w+) (\d+) \[", lab)
    if len(set(duties)) != len(duties):
        return "duty-triggered-twice"
    earlier = " ".join(h["labels"][:idx])
    for ty, s in duties:
        if re.search(r"T %s %s \[" % (ty, s), earlier):
            return "duty-triggered-twice"
        if s != slot:
            return "duty-triggered-for-wrong-slot"
    return "trigger-set-differs-from-assignments"


def main():
    R = vp.Result("C15")
    R.assumptions = [
        "beacon-node answers are well formed (wf_trace): attester and proposer duties returned for epoch e lie in epoch e; without it the code can drop a duty (SchedulerFacts.off_epoch_answer_drops_duty); histories of kind 'offepoch' violate it on purpose and are checked against the model only",
        "'active' is what resolveActiveValidators computes: status.IsActive() or activation epoch = the epoch being resolved; the validators answer is a map (distinct indices) without nil elements; duties answers contain no nil elements",
        "HandleChainReorgEvent (feature SSEReorgDuties, enabled in the harness) and HandleHeadEvent are atomic and run between ticks or between a tick's delivery and its dispatch; builder registration, slot subscribers and GetDutyDefinition are not modelled",
        "feature flags fetch_att_on_block / fetch_att_on_block_with_delay are the model parameter fm (histories of kind 'flags' enable one or both): the attester duty then waits on the clock itself (waitForEarlyFetchOrTimeout) and the observable is the instant its subscribers are called (LFire), which must be >= slot start + 1/3 slot (+300ms); the early fetch-only call released by a head event (LHead) is checked against the model but is not constrained by the property; the harness keeps the fake clock equal to the synctest bubble time because the code mixes both (s.clock.After(time.Until(..)))",
        "a tick is handled when the ticker produces it (Run loop idle); a late delivery only makes the delivered slot older, slots still strictly increase",
        "attester duties are processed after slices.SortFunc (not stable): labels list them in processing order; the harness never puts a wrong-public-key attester entry in a slot shared with another entry, so the tie order is unobservable in the recorded histories",
        "the observable of a trigger is (duty, definition set, deadline passed to the delay function); the harness delay function returns at once, so 'not before its time' is: the tick is at/after the slot start and the deadline is slot start + the type's offset",
    ]
    R.proofs()
    n = 5000 if R.thorough else 700
    rc, out, od = vp.go_harness("scheduler", env_extra={"VERIF_N": n})
    if rc != 0:
        R.broke("correspondence:harness scheduler failed to run", out[-3000:])
        R.finish()
    hs = json.load(open(os.path.join(od, "scheduler_traces.json")))
    R.coverage["evaluations"] = len(hs)
    seen = set()
    for h in hs:
        if h.get("nontrivial"):
            seen.add(vp.digest(h["labels"]))
    R.coverage["distinct_nontrivial"] = len(seen)
    R.coverage["rule"] = ("histories of clock advances (one slot, part of a slot, several slots, exactly k slots, zero) and reorg events against scheduler.NewForT "
                          "with a scripted beacon node (per-call errors, wrong public keys, answers that change between retries, unknown / pending / exiting validators, "
                          "non-cluster validator indices), fake clock, capturing delay function, in a synctest bubble; kinds: corpus, random, offepoch (answers outside the requested epoch: model only), "
                          "valcache (the real eth2wrap.ValidatorCache wired as app/app.go does between the beacon node and the scheduler, refresh subscriber before or after scheduleSlot, beacon node knows non-cluster validators with duties, validators endpoint: by-slot query fails / all fail / recover), "
                          "flags (fetch_att_on_block / _with_delay / both, with or without a registered fetch-only function, head events for the previous/current/next slot at arbitrary instants, repeated, and between a tick's delivery and its dispatch); "
                          "non-trivial = at least one failed or aborted resolution or at least one skipped tick; distinct by hash of the observed label sequence")
    kinds, agg = {}, {}
    nlabels = 0
    for h in hs:
        kinds[h["kind"]] = kinds.get(h["kind"], 0) + 1
        nlabels += len(h["labels"])
        for k, v in h["stats"].items():
            agg[k] = agg.get(k, 0) + v
    spes, durs = {}, {}
    for h in hs:
        spes[h["script"]["spe"]] = spes.get(h["script"]["spe"], 0) + 1
        durs[h["script"]["slot_ns"]] = durs.get(h["script"]["slot_ns"], 0) + 1
    R.coverage["input_distribution"] = {"kinds": kinds, "labels_total": nlabels, "totals": agg,
                                        "slots_per_epoch": spes, "slot_ns": durs,
                                        "histories_with_failed_resolution": sum(1 for h in hs if h["stats"]["Failed"] + h["stats"]["Aborted"] > 0),
                                        "histories_with_skipped_tick": sum(1 for h in hs if h["stats"]["Skipped"] > 0),
                                        "histories_with_reorg": sum(1 for h in hs if h["stats"]["Reorgs"] > 0),
                                        "flag_modes": {k: sum(1 for h in hs if h.get("fm") == k) for k in ("FOff", "FOn", "FOnDelay")},
                                        "histories_with_fetch_only_registered": sum(1 for h in hs if h.get("ff")),
                                        "histories_with_head_event_between_delivery_and_dispatch": sum(1 for h in hs if h["stats"]["HookedHeads"] > 0),
                                        "histories_through_real_ValidatorCache": sum(1 for h in hs if h["script"].get("vc")),
                                        "histories_with_by_slot_validators_failure_and_head_fallback": sum(1 for h in hs if h["stats"]["ValBySlotFailed"] > 0)}
    R.add_samples([{"script": h["script"], "labels": h["labels"][:12]} for h in hs if h.get("nontrivial")][:2])
    byid = {h["id"]: h for h in hs}
    nwf = 0
    # Parsing the case terms dominates (about 0.08 s per history); 100 histories per file, files in parallel.
    shards = list(enumerate(vp.chunks(hs, 100)))
    with ThreadPoolExecutor(max_workers=max(2, min(12, vp.NPROC - 2))) as ex:
        results = list(ex.map(lambda a: vp.coq_eval("C15_%d" % a[0], cases_v(a[1])), shards))
    for (shard_i, shard), (rc, out) in zip(shards, results):
        if rc != 0:
            R.broke("correspondence:cases_C15_%d does not compile" % shard_i, out[-3000:])
            continue
        rej = pairs(vp.parse_marked(out, "rejects"))
        hits = pairs(vp.parse_marked(out, "monitor_hits"))
        nwf += len(pairs(vp.parse_marked(out, "not_wf")))
        for cid, idx in hits:
            h = byid[cid]
            lab = h["labels"][idx] if idx < len(h["labels"]) else "?"
            R.violation(classify(h, idx), "observed trace violates the C15 monitor at label %d (%s)" % (idx, lab[:300]),
                        {"script": h["script"], "labels": h["labels"], "index": idx,
                         "how": "./check C15 --replay <this file> re-runs the script against /repo"})
        for cid, which in pairs(vp.parse_marked(out, "outside_cluster")):
            h = byid[cid]
            key = "validators-outside-cluster-handed-to-scheduler" if which == 0 else "duty-for-validator-outside-cluster"
            cl = [v["pk"] for v in (h["script"].get("vals") or [])]
            bad = next((l for l in h["labels"] if (which == 0 and l.startswith("LTick") and any(int(pk) not in cl for pk in re.findall(r"V \d+ (\d+) ", l)))
                        or (which == 1 and any(int(pk) not in cl for pk in re.findall(r"\((\d+), E ", l)))), "?")
            R.violation(key, "cluster public keys %s; %s: %s" % (cl, key, bad[:400]),
                        {"script": h["script"], "labels": h["labels"],
                         "how": "./check C15 --replay <this file> re-runs the script against /repo"})
        hit_ids = {c for c, _ in hits}
        for cid, idx in rej:
            if cid in hit_ids:
                continue
            h = byid[cid]
            R.broke("correspondence:Scheduler model rejects observed trace %d at label %d (%s)" % (cid, idx, (h["labels"][idx] if idx < len(h["labels"]) else "?")[:300]),
                    json.dumps({"script": h["script"], "labels": h["labels"][:idx + 1]}))
    R.coverage["traces_validated_against_impl"] = len(hs)
    R.coverage["input_distribution"]["traces_outside_wf_checked_against_model_only"] = nwf
    # reorg side: the epoch HandleChainReorgEvent is told for a chain_reorg event (app/sse listener): props/sse_reorg.py
    try:
        import sse_reorg
        sse_reorg.run(R)
    except ImportError:
        pass
    R.finish()
