"""Stand-alone run of the S1 split-decision scenario (props/c02_s1.py) under the scratch id C02_s1:
./check C02_s1 [--replay replays/corpus/C02-F11b-split.json]."""
import vp
import c02_s1


def main():
    R = vp.Result("C02_s1")
    c02_s1.run(R)
    R.finish()
