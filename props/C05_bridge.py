"""Standalone run of the C05 -> C02 bridge part (scratch id C05_bridge)."""
import vp
import c05_bridge


def main():
    R = vp.Result("C05_bridge")
    c05_bridge.run(R)
    R.coverage["rule"] = "proof only; one vm_compute example of the abstraction"
    R.finish()
