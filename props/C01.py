"""C01 cluster-level single signing root: theorems in coq/Properties/C01.v over the cluster model
coq/Flow/Pipeline.v; the wiring is regenerated from core.Wire by translator/wire into
coq/gen/Wiring.v and decided in Coq; harness/pipeline simulates clusters of the real components
wired by the real core.Wire, monitors the real outputs, and every run is checked for trace
inclusion in the model."""
import collections
import concurrent.futures
import json
import os
import re

import c01_bridge
import vp

TRANSLATOR = os.path.join(vp.VERIF, "translator")


def cases_v(rs):
    rows = []
    for r in rs:
        rows.append("(%d%%nat, %s, [%s])" % (r["id"], r["cfg"], "; ".join(r["labels"] or [])))
    return """From Coq Require Import List Arith Bool.
From Charon Require Import Flow.Pipeline.
Import ListNotations.
Definition cases : list (nat * config * list label) := [
%s
].
Definition rejects := Eval vm_compute in
  flat_map (fun c => match first_reject (snd (fst c)) init (snd c) 0 with Some i => [(fst (fst c), i)] | None => [] end) cases.
Definition monitor_hits := Eval vm_compute in
  flat_map (fun c => match first_violation (snd (fst c)) ginit (snd c) 0 with Some i => [(fst (fst c), i)] | None => [] end) cases.
Definition companion_hits := Eval vm_compute in
  flat_map (fun c => if sign_same_all (snd (fst c)) (snd c) then [] else [(fst (fst c), 0)]) cases.
Print rejects.
Print monitor_hits.
Print companion_hits.
""" % ";\n".join(rows)


def pairs(term):
    return [(int(a), int(b)) for a, b in re.findall(r"\((\d+)%?n?a?t?, (\d+)%?n?a?t?\)", term or "")]


def run_translator(R):
    out_v = os.path.join(vp.COQ, "gen", "Wiring.v")
    rc, out = vp.sh("go run ./wire -repo %s -out %s" % (vp.REPO, out_v), cwd=TRANSLATOR, env=vp.go_env(), timeout=300)
    R.coverage["translator"] = out.strip().splitlines()[-1] if out.strip() else "rc=%d" % rc
    if rc != 0:
        R.broke("translator:wire failed on %s/core/interfaces.go (unknown statement shape in Wire or in a WireOption?)" % vp.REPO, out[-3000:])
        return False
    return True


def run_app_translator(R):
    out_v = os.path.join(vp.COQ, "gen", "AppWiring.v")
    rc, out = vp.sh("go run ./appwire -repo %s -out %s" % (vp.REPO, out_v), cwd=TRANSLATOR, env=vp.go_env(), timeout=300)
    R.coverage["translator_appwire"] = out.strip().splitlines()[-1] if out.strip() else "rc=%d" % rc
    if rc != 0:
        R.broke("translator:appwire failed on %s/app/app.go wireCoreWorkflow (a construction shape it can not interpret; obligation C01_app_wiring)" % vp.REPO, out[-3000:])
        return False
    return True


APP_OVERLAY = {"zz_verif_c01_internal_test.go": os.path.join(vp.VERIF, "harness", "overlay", "app", "zz_verif_c01_internal_test.go")}
TIMING_KEYS = ("published-late", "never-published")


def _appnode_once(env_extra=None):
    rc, out, od = vp.go_overlay_test("app", APP_OVERLAY, run="TestVerifC01App", env_extra=env_extra, timeout=1200)
    if rc != 0:
        return rc, out, []
    return rc, out, json.load(open(os.path.join(od, "appnode_runs.json")))


def run_appnode(R):
    """Single-node family through the REAL app.wireCoreWorkflow (overlay test in package app)."""
    rc, out, runs = _appnode_once()
    if rc != 0:
        R.broke("correspondence:app-node family (overlay test in package app, real wireCoreWorkflow) failed to run", out[-3000:])
        return
    final = []
    retried = 0
    for r in runs:
        if not os.environ.get("VERIF_REPLAY") and any(h["key"] in TIMING_KEYS for h in (r["hits"] or [])):
            # a publication that is late / missing is judged by waiting: re-run that one scenario alone with tripled waits
            spec = {k: r[k] for k in ("id", "family", "n", "k", "kind", "seed")}
            tmp = os.path.join(vp.WORK, "appnode_retry_%d.json" % r["id"])
            with open(tmp, "w") as f:
                json.dump({"replay": spec}, f)
            rc2, out2, again = _appnode_once({"VERIF_REPLAY": tmp, "VERIF_WAIT_SCALE": 3})
            retried += 1
            if rc2 == 0 and again:
                r = again[0]
        final.append(r)
    aborted = [r for r in final if r.get("aborted")]
    R.coverage["app_node_family"] = {
        "runs": len(final), "retried_with_tripled_waits": retried, "aborted": len(aborted),
        "shapes": sorted({"%d-of-%d" % (r["k"], r["n"]) for r in final}), "kinds": sorted({r["kind"] for r in final}),
        "published_at": {"%d-of-%d" % (r["k"], r["n"]): r["published_at"] for r in final if r["kind"] == "exact"},
        "crossfork_partial_accepted_and_aggregate_refused": sum(1 for r in final if r["kind"] == "crossfork" and r["submissions"] == 0),
        "note": "one full node built by the real app.wireCoreWorkflow on a beaconmock, only the partial-signature transport replaced (TestConfig.ParSigExFunc); the harness plays all key shares; sync committee messages; monitor on the beacon mock"}
    for r in final:
        for h in r["hits"] or []:
            R.violation("appnode:" + h["key"], "single node built by the real app.wireCoreWorkflow, %d-of-%d cluster, scenario %s: %s" % (r["k"], r["n"], r["kind"], h["what"]),
                        {"id": r["id"], "family": "appnode", "n": r["n"], "k": r["k"], "kind": r["kind"], "seed": r["seed"], "events": r["events"],
                         "how": "./check C01 --replay <this file> re-runs this scenario against /repo"})


def main():
    R = vp.Result("C01")
    R.assumptions = [
        "symbolic signatures: an aggregate verifies under the group key for root r iff it combines >= t genuine partial signatures of distinct shares over r; genuine partials of an honest share exist only if that node's validator client made them (C08 theorems in both directions + BLS unforgeability; assumption of the model)",
        "share i belongs to node i; at most f = floor((n-1)/3) nodes (node + validator client + share) are Byzantine, threshold t = ceil(2n/3); the theorems are stated for any n, t, Byz with n + |Byz| < 2t",
        "an honest node keeps its partial-signature store for the lifetime of the duty: trimming at expiry and restarts that lose the in-memory stores are not modelled (after a restart the one-root-per-share rule rests on consensus agreement and the validator client's slashing protection)",
        "the per-node rules of the model abstract parsigdb (C07) and sigagg (C09); consensus agreement (C02) and duty-store uniqueness (C06) are hypotheses of C01_honest_sign_same only",
        "the wiring obligation covers core.Wire and the WireOption constructors of package core (C01_wiring) and the construction code app/app.go wireCoreWorkflow (C01_app_wiring: store and aggregator built with the same threshold expression lock.Threshold, aggregator verifier exactly sigagg.NewVerifier(eth2Cl), peer partials through parsigex.NewEth2Verifier and core.NewDutyGater, the only extra subscriber on the signing path is the integration tests' BroadcastCallback behind its nil check); expressions are compared as printed source; what the constructors DO with these arguments is the component properties' business (C07, C09), and components passed on to other functions (life.RegisterStart, wireVAPIRouter, wirePrioritise) are not followed",
        "simulation, second mode (kinds real / real-staleprep): the consensus stub is replaced by the real core/consensus/qbft component on every honest node (qbft.NewConsensus directly, not through the consensus controller; default feature set, real timers, real time), its libp2p host is an in-memory fake controlled by the harness (delay, duplication, loss, crash, late start, an adversarial stale-PREPARE schedule); Byzantine nodes are silent in consensus; scheduler, fetcher (one different candidate per node), ParSigEx and broadcaster stay stubs; the consensus phase completes before the partial-signature phase starts",
        "app-node family: one full node built by the real app.wireCoreWorkflow (all real components and wire options, beaconmock as beacon node) with only the partial-signature transport replaced through TestConfig.ParSigExFunc; the harness plays every key share through that transport after the real parsigex.NewEth2Verifier (the duty gater of ParSigEx.handle is not applied); sync committee messages only; 'published once k matching partials arrived' is judged by waiting (4 s, re-run with tripled waits before reporting)",
        "both simulation modes: the broadcaster is the REAL core/bcast Broadcaster over a recording beacon mock (its attester duties are the scenario's); the monitors run on the broadcaster's input, on AggSigDB.Store's input and on the beacon-node submissions",
        "simulation, first mode: scheduler, fetcher, consensus and ParSigEx (network) are harness stubs; the consensus stub decides the first proposal made in the cluster and hands the same decided set to every node; messages make the protobuf round trip and pass parsigex.NewEth2Verifier as in ParSigEx.handle, except in 'garbage' scenarios which bypass it to exercise SigAgg's own verification; WithAsyncRetry is not applied",
    ]
    run_translator(R)
    run_app_translator(R)
    R.proofs()
    if not os.environ.get("VERIF_REPLAY"):
        c01_bridge.run(R)   # composition: component hypotheses discharged from the C07/C09/C06/C02 models
    ok, failing, log = vp.coq_build(["Flow/Pipeline.v"])
    if not ok:
        R.broke("proof:Flow/Pipeline.v does not build", log[-2000:])
        R.finish()
    rp = os.environ.get("VERIF_REPLAY")
    if rp:
        try:
            fam = (json.load(open(rp)).get("replay") or {}).get("family")
        except (OSError, ValueError):
            fam = None
        if fam == "appnode":
            run_appnode(R)
            R.coverage["evaluations"] = 1
            R.finish()
    else:
        run_appnode(R)
    n = int(os.environ.get("VERIF_N", 4000 if R.thorough else 300))
    nreal = int(os.environ.get("VERIF_REAL", 60 if R.thorough else 12))
    rc, out, od = vp.go_harness("pipeline", env_extra={"VERIF_N": n, "VERIF_REAL": nreal}, timeout=1500)
    if rc != 0:
        R.broke("correspondence:harness pipeline failed to run", out[-3000:])
        R.finish()
    rs = json.load(open(os.path.join(od, "pipeline_runs.json")))
    inb = [r for r in rs if r["kind"] != "overbound"]
    over = [r for r in rs if r["kind"] == "overbound"]
    aborted = [r for r in rs if r.get("aborted")]
    if aborted:
        R.coverage["aborted_runs"] = {"count": len(aborted), "first": aborted[0]["aborted"][:300],
                                      "note": "harness infrastructure failure (e.g. beacon mock timeout under load); such a run proves nothing either way and is never a finding"}
        if len(aborted) == len(rs):
            R.broke("harness:every simulation run aborted", aborted[0]["aborted"][:1000])
    aborted_ids = {r["id"] for r in aborted}
    R.coverage["evaluations"] = len(inb)
    seen = set()
    for r in inb:
        if r.get("nontrivial"):
            seen.add(vp.digest([r["cfg"], r["labels"]]))
    R.coverage["distinct_nontrivial"] = len(seen)
    R.coverage["rule"] = ("one evaluation = one simulated cluster run (n = 3..7 nodes, 1..3 validators, one attester and one sync-message duty) of the real components wired by the real core.Wire; "
                          "non-trivial = the run produced at least one fully signed object AND contains >= 1 injected Byzantine partial set or >= 1 delivery (duplicate/reordered) reaching a node that had already aggregated that duty+validator; "
                          "distinct by hash of (cluster configuration, rendered label sequence)")
    stats = collections.Counter()
    kinds = collections.Counter()
    sizes = collections.Counter()
    nlabels = 0
    for r in inb:
        kinds[r["kind"]] += 1
        sizes["n=%d,byz=%d,vals=%d" % (r["n"], len(r["byz"] or []), r["vals"])] += 1
        nlabels += len(r["labels"] or [])
        for k, v in (r["stats"] or {}).items():
            stats[k] += v
        stats["outputs_checked"] += r["outputs"]
        stats["aggsigdb_v2_runs"] += 1 if r["aggsigdb_v2"] else 0
    lk = collections.Counter()
    for r in inb:
        for l in r["labels"] or []:
            lk[l.split(" ", 1)[0]] += 1
    R.coverage["input_distribution"] = {"kinds": dict(kinds), "cluster_shapes": dict(sorted(sizes.items())), "labels_total": nlabels,
                                        "label_kinds": dict(lk), "events": dict(sorted(stats.items()))}
    real = [r for r in inb if r["kind"].startswith("real")]
    if real and not os.environ.get("VERIF_REPLAY"):
        cs = collections.Counter()
        for r in real:
            for k, v in (r["stats"] or {}).items():
                if k.startswith("cons_"):
                    cs[k] += v
        R.coverage["real_consensus_mode"] = {
            "runs": len(real), "runs_with_decision": sum(1 for r in real if (r["stats"] or {}).get("cons_decided")),
            "runs_with_outputs": sum(1 for r in real if r["outputs"]), "adversarial_stale_prepare_runs": sum(1 for r in real if r["kind"] == "real-staleprep"),
            "cluster_sizes": dict(collections.Counter("n=%d" % r["n"] for r in real)), "events": dict(sorted(cs.items())),
            "note": "every honest node runs the real core/consensus/qbft component (real round timers, real time) over an in-memory fake of the libp2p host; decisions, DutyDB content, partial signatures, threshold, aggregate all from real components; extra monitors: all honest DutyDBs answer alike, decided value was proposed by an honest node; not bit-for-bit replayable, only positive observations count"}
        undec = sum(1 for r in real if not (r["stats"] or {}).get("cons_decided"))
        R.coverage["real_consensus_mode"]["retried_sequentially_x3"] = sum(1 for r in real if r.get("retried"))
        R.coverage["real_consensus_mode"]["undecided_after_retry"] = undec
        if undec == len(real):
            # only a mode that did nothing at all (after the sequential x3 retry) is reported; some undecided runs are load, not a finding
            R.broke("real-mode:no run of the real consensus component decided anything, also after the sequential retry with tripled waits (harness or timers broken)")
        elif undec:
            R.notes.append("%d of %d real-consensus runs did not decide (machine load / admissible message loss); not a finding" % (undec, len(real)))
    R.add_samples([{"spec": {"id": r["id"], "kind": r["kind"], "seed": r["seed"]}, "cfg": r["cfg"], "labels": (r["labels"] or [])[:60]} for r in inb if r.get("nontrivial")][:2])

    def replay_of(r):
        return {"id": r["id"], "kind": r["kind"], "seed": r["seed"], "cfg": r["cfg"], "script": (r["script"] or [])[-80:],
                "how": "./check C01 --replay <this file> re-runs this scenario (kind, seed) against /repo"}

    # monitor on the real outputs
    for r in inb:
        for h in r["hits"] or []:
            R.violation(h["key"], "cluster simulation of the real components, scenario %d (%s, n=%d, byz=%s): %s" % (r["id"], r["kind"], r["n"], r["byz"], h["what"]), replay_of(r))
    byid = {r["id"]: r for r in rs}
    go_hit_ids = {r["id"] for r in inb if r["hits"]}
    coq_over_hits, coq_over_rej = set(), set()
    shards = list(vp.chunks(rs, 250))
    with concurrent.futures.ThreadPoolExecutor(max_workers=6) as ex:
        evals = list(ex.map(lambda a: vp.coq_eval("C01_%d" % a[0], cases_v(a[1])), enumerate(shards)))
    for shard_i, shard in enumerate(shards):
        rc, out = evals[shard_i]
        if rc != 0:
            R.broke("correspondence:cases_C01 does not compile", out[-3000:])
            continue
        rej = pairs(vp.parse_marked(out, "rejects"))
        hits = pairs(vp.parse_marked(out, "monitor_hits"))
        comp = pairs(vp.parse_marked(out, "companion_hits"))
        for cid, idx in hits:
            r = byid[cid]
            if r["kind"] == "overbound":
                coq_over_hits.add(cid)
                continue
            lab = r["labels"][idx] if idx < len(r["labels"]) else "?"
            R.violation("trace-monitor", "observed trace of scenario %d violates the C01 monitor at label %d (%s)" % (cid, idx, lab), replay_of(r))
        hit_ids = {c for c, _ in hits} | go_hit_ids
        for cid, idx in rej:
            r = byid[cid]
            if r["kind"] == "overbound":
                coq_over_rej.add(cid)
                continue
            if cid in hit_ids or cid in aborted_ids:
                continue
            lab = r["labels"][idx] if idx < len(r["labels"]) else "?"
            R.broke("correspondence:Pipeline model rejects observed trace %d at label %d (%s)" % (cid, idx, lab), json.dumps(replay_of(r)))
        rej_ids = {c for c, _ in rej}
        for cid, _ in comp:
            r = byid[cid]
            if r["kind"] == "overbound" or cid in rej_ids or cid in hit_ids or cid in aborted_ids:
                continue
            R.broke("correspondence:companion honest_sign_same fails on observed trace %d" % cid, json.dumps(replay_of(r)))
    R.coverage["traces_validated_against_impl"] = len(inb)
    # self-test outside the assumptions: f+1 Byzantine shares must make both monitors fire, and the model must accept the trace
    if over and not os.environ.get("VERIF_REPLAY"):
        # a self-test run counts only if it ran to completion: both target nodes aggregated for every validator
        complete = [r for r in over if not r.get("aborted") and (r["stats"] or {}).get("aggregates", 0) >= 2 * r["vals"]]
        go_fired = sum(1 for r in complete if any(h["key"] == "two-roots" for h in (r["hits"] or [])))
        coq_fired = sum(1 for r in complete if r["id"] in coq_over_hits)
        reached = sum(1 for r in complete if any(h["key"] == "beacon-two-roots" for h in (r["hits"] or [])))
        R.coverage["selftest_overbound"] = {"runs": len(over), "completed": len(complete), "go_monitor_fired": go_fired, "coq_monitor_fired": coq_fired,
                                            "model_rejected": len(coq_over_rej),
                                            "second_object_reached_beacon_node": reached,
                                            "second_object_note": "NOTE, not a violation: with f+1 Byzantine shares the two differently-rooted objects are aggregated on two different nodes, so each node's AggSigDB gate (first object wins, sigagg stops before the broadcaster: order obligation of C01_wiring) sees only one of them and both reach the beacon node; on ONE node a second threshold set would need 2t > n distinct shares (C07_no_double_delivery) and never forms",
                                            "note": "f+1 Byzantine nodes (outside the property's assumptions): two roots ARE published by the real components; not a violation"}
        if go_fired != len(complete) or coq_fired != len(complete) or coq_over_rej:
            R.broke("selftest:a completed f+1-Byzantine scenario did not trip the monitors (go=%d coq=%d of %d completed, model rejected %d)" % (go_fired, coq_fired, len(complete), len(coq_over_rej)))
    R.finish()
